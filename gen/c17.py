"""C17 / E3 - a derived codec implements exactly what its enum declaration says.
Enum declarations are generated from a bounded grammar (G1..G6), compiled with the real
#[derive(Codec)] in the dev and release profiles, and each generated module checks all 256 byte
values against tables the generator computed from the declaration (independently of the derive).
Malformed declarations are interleaved with well-formed ones and must fail to compile."""
import progs

POOL = "ABCDEFGHIJKLMNOPQRSTUVWXYZ"
DISPLAY_POOL = "abcdefghijklmnopqrstuvwxyz0123456789*-.?!+=#@$%&<>"


def bitlen(x):
    return max(1, x.bit_length()) if x > 0 else 0


class Decl:
    """variants: [(name, value, literal_text, display or None, [alt values])]"""

    def __init__(self, tag, variants, bits=None, layout=0, decor=0):
        self.tag = tag
        self.variants = variants
        self.bits = bits
        self.layout = layout
        # decor: unrelated attributes / doc comments on the enum and its variants (0 = none)
        self.decor = decor

    def expected_bits(self):
        return self.bits if self.bits is not None else bitlen(max(v[1] for v in self.variants))

    def display(self, v):
        return v[3] if v[3] is not None else v[0][0]

    def source(self, name):
        lines = ["#[derive(Clone, Copy, Debug, PartialEq, Eq, Hash, Codec)]"]
        if self.bits is not None:
            lines.append(f"#[bits({self.bits})]")
        lines.append("#[repr(u8)]")
        if self.decor:
            lines.insert(0, "/// A documented alphabet.")
            lines.append("#[allow(dead_code, clippy::upper_case_acronyms)]")
        if any(v[0][0].islower() for v in self.variants):
            lines.append("#[allow(non_camel_case_types)]")
        lines.append(f"pub enum {name} {{")
        for vi, v in enumerate(self.variants):
            if self.decor == 1:
                lines.append(f"    /// the symbol `{v[0]}`")
            elif self.decor == 2:
                lines.append("    #[allow(dead_code)]")
                lines.append(f"    #[doc = \"symbol {vi}\"]")
            elif self.decor == 3:
                lines.append("    #[cfg_attr(any(), deprecated)]")
                if vi % 2:
                    lines.append("    #[doc(hidden)]")
                lines.append("    /** block doc */")
            # attribute layout: self.layout selects how the alternatives are spread over #[alt] attributes
            # and where #[display] sits (0: display first, one #[alt(a, b)]; 1: one #[alt] per alternative,
            # display last; 2: #[alt(a)] #[display] #[alt(b)]; 3: one #[alt(a, b,)] with trailing comma, display last)
            lay = self.layout
            place = lay % 4
            disp = [f"    #[display({char_lit(v[3])})]"] if v[3] is not None else []
            alts = list(v[4])
            def lit(a):
                # every literal form an alternative may be written in: decimal, binary, hex, byte literal / octal
                form = (a + lay) % 4
                if form == 0:
                    return str(a)
                if form == 1:
                    return f"{a:#b}"
                if form == 2:
                    return f"{a:#x}"
                return f"b'{chr(a)}'" if 33 <= a < 127 and chr(a) not in "'\\" else f"{a:#o}"
            fmt = lambda xs: "    #[alt(" + ", ".join(lit(a) for a in xs) + ("," if place == 3 else "") + ")]"
            if place == 0 or not alts:
                lines += disp + ([fmt(alts)] if alts else [])
            elif place == 1:
                lines += [fmt([a]) for a in alts] + disp
            elif place == 2:
                lines += [fmt(alts[:1])] + disp + ([fmt(alts[1:])] if alts[1:] else [])
            else:
                lines += [fmt(alts)] + disp
            lines.append(f"    {v[0]} = {v[2]},")
        lines.append("}")
        return lines

    def describe(self):
        return {"tag": self.tag, "bits": self.bits, "layout": self.layout, "decor": self.decor, "variants": [[v[0], v[2], v[3], v[4]] for v in self.variants]}


def char_lit(c):
    if c == "'":
        return "'\\''"
    if c == "\\":
        return "'\\\\'"
    return f"'{c}'"


def names(n):
    """n variant names with distinct first letters where possible"""
    out = []
    for i in range(n):
        out.append(POOL[i % 26] + ("" if i < 26 else f"x{i}"))
    return out


def grammar(tier, seed):
    th = tier == "thorough"
    ds = []
    # G1: {A = 0, Z = m} for every m, no declared width
    for m in (range(1, 256) if th else list(range(1, 20)) + [31, 32, 33, 63, 64, 65, 127, 128, 129, 200, 254, 255]):
        ds.append(Decl(f"G1 max={m}", [("A", 0, "0", None, []), ("Z", m, str(m), None, [])]))
    # G2: declared widths from minimal to 8 at power-of-two edges
    for m in [1, 2, 3, 4, 7, 8, 15, 16, 31, 32, 127, 128, 255]:
        for w in range(bitlen(m), 9):
            if th or w in (bitlen(m), 8):
                ds.append(Decl(f"G2 max={m} bits={w}", [("A", 0, "0", None, []), ("M", m, str(m), None, [])], bits=w))
    # G3: literal forms
    for val in [0, 1, 7, 65, 200]:
        forms = [str(val), f"{val:#b}", f"{val:#x}", f"{val:#o}", f"{val}u8", "0b" + "_".join(f"{val:08b}"[i:i + 4] for i in (0, 4))]
        if 32 <= val < 127 and chr(val) not in "'\\":
            forms.append(f"b'{chr(val)}'")
        for f in forms:
            other = 3 if val != 3 else 4
            ds.append(Decl(f"G3 value={val} as {f}", [("P", val, f, None, []), ("Q", other, str(other), None, [])]))
    # G4: alternatives over a 3-bit code space, 2-3 variants, display variations
    disp_sets = [(None, None, None), ("*", "-", "."), ("1", "2", "3"), ("a", "c", "g")]
    codes = list(range(8))
    import itertools
    k = 0
    for nv in (2, 3):
        for prim in itertools.permutations(codes, nv):
            if not th and (prim[0] + 2 * prim[1] + (prim[2] if nv == 3 else 0)) % 11 != 0:
                continue
            rest = [c for c in codes if c not in prim]
            for split in range(0, 3):
                # give `split` alternatives to the first variant and (2 - split) to the last
                a0 = rest[:split]
                a1 = rest[split:2]
                disp = disp_sets[k % len(disp_sets)]
                k += 1
                vs = []
                nm = names(nv)
                for i in range(nv):
                    alts = a0 if i == 0 else (a1 if i == nv - 1 else [])
                    vs.append((nm[i], prim[i], f"{prim[i]:#05b}", disp[i], list(alts)))
                ds.append(Decl(f"G4 primaries={prim} alts0={a0} alts_last={a1} display={disp} layout={k % 4}", vs, bits=3 if k % 2 else None, layout=k % 4))
    # G4b: every attribute layout with two alternatives on the first and on the last variant, and amino-like many alternatives
    for lay in range(4):
        ds.append(Decl(f"G4b two-alt variants layout={lay}", [("A", 0, "0", "*", [5, 6]), ("C", 1, "1", None, []), ("G", 2, "2", "g", [3, 7])], bits=3, layout=lay))
        ds.append(Decl(f"G4b five alternatives layout={lay}", [("L", 13, "0b001101", None, [15, 47, 61, 29, 45]), ("M", 44, "0b101100", None, []), ("X", 3, "3", "*", [11, 35])], bits=6, layout=lay))
    # G7: doc comments and unrelated attributes on the enum and on its variants must not disturb the derive
    for decor in (1, 2, 3):
        ds.append(Decl(f"G7 decorated (style {decor}) plain", [("A", 0, "0", None, []), ("C", 1, "1", None, []), ("G", 2, "2", None, []), ("T", 3, "3", None, [])], decor=decor))
        ds.append(Decl(f"G7 decorated (style {decor}) with display/alt", [("A", 0, "0", "*", [5, 6]), ("C", 1, "1", None, []), ("G", 2, "2", "g", [3, 7])], bits=3, layout=decor, decor=decor))
    # G4d: an alternative code that needs more bits than the largest discriminant does not widen the codec
    ds.append(Decl("G4d alternative beyond the discriminants' width (no #[bits])", [("A", 0, "0", None, []), ("C", 1, "1", None, []), ("G", 2, "2", None, []), ("T", 3, "3", None, [16, 200])]))
    ds.append(Decl("G4d alternative beyond the discriminants' width (#[bits(2)])", [("A", 0, "0", None, [64]), ("C", 1, "1", None, []), ("G", 2, "2", None, []), ("T", 3, "3", None, [0x10])], bits=2, layout=1))
    # G4c: an 8-bit codec whose alternatives are the lower-case letters, written as byte literals
    for lay in (3, 7):
        ds.append(Decl(f"G4c byte-literal alternatives layout={lay}", [("A", 65, "b'A'", None, [97]), ("C", 67, "b'C'", None, [99]), ("G", 71, "b'G'", None, [103]), ("T", 84, "b'T'", None, [116, 117, 85])], bits=8, layout=lay))
    # G8: variant names of other shapes: lower-case names (among them names starting with `r`, which a derive that
    # strips a raw-identifier prefix by letters mangles), one-letter names, names with digits and underscores,
    # names sharing a prefix; the default display character is the first character of the name as written
    for tag, nms in [
        ("lower-case r-names", ["rev", "yr", "a", "c"]),
        ("one-letter lower-case", ["r", "a", "c", "g"]),
        ("repeated r", ["rr", "Rr", "t", "a"]),
        ("digits and underscores", ["A1", "B_2", "c_", "D0x"]),
        ("shared prefixes", ["Ala", "Bla", "Cla", "Dla", "ala"]),
        ("long names", ["Adenine", "Cytosine", "Guanine", "Thymine", "Uracil", "rAdenine", "hash"]),
    ]:
        assert len({n[0] for n in nms}) == len(nms), "G8 names must have distinct first characters"
        ds.append(Decl(f"G8 names: {tag}", [(n, i, str(i), None, []) for i, n in enumerate(nms)]))
        ds.append(Decl(f"G8 names: {tag}, with alternatives", [(n, i, str(i), None, ([7 - i] if i < 2 else [])) for i, n in enumerate(nms[:4])], bits=3, layout=len(tag) % 4))
    # G9: no variant has code 0 (so an all-zero word is not a valid run of symbols), and a codec with gaps in its code space
    ds.append(Decl("G9 no zero code (3 bits)", [("A", 1, "1", None, []), ("C", 2, "2", None, []), ("G", 3, "3", None, []), ("T", 4, "4", None, [])]))
    ds.append(Decl("G9 no zero code (2 bits)", [("A", 1, "1", None, []), ("C", 2, "2", None, []), ("G", 3, "3", None, [])], bits=2))
    ds.append(Decl("G9 no zero code (8 bits, letters)", [("A", 65, "b'A'", None, [97]), ("C", 67, "b'C'", None, []), ("N", 78, "b'N'", None, [])], bits=8))
    # G5: variant counts
    for n in [2, 3, 5, 16, 17, 32, 33, 40]:
        nm = names(n)
        vs = []
        for i in range(n):
            val = (i * 5 + 1) % 256 if n > 32 else i
            disp = None if i < 26 else DISPLAY_POOL[i - 26]
            vs.append((nm[i], val, str(val), disp, []))
        ds.append(Decl(f"G5 variants={n}", vs))
        vs2 = [(nm[i], 255 - i * 3, str(255 - i * 3), (None if i < 26 else DISPLAY_POOL[i - 26]), []) for i in range(n)]
        ds.append(Decl(f"G5 variants={n} high discriminants", vs2, bits=8))
    return ds


def tables(d):
    dec = [-1] * 256
    asc = [-1] * 256
    for i, v in enumerate(d.variants):
        for c in [v[1]] + list(v[4]):
            if dec[c] == -1:
                dec[c] = i
        ch = ord(d.display(v))
        if asc[ch] == -1:
            asc[ch] = i
    return dec, asc


CHECK_FN = r'''
    pub fn check(tag: &str) {
        let items: Vec<E> = E::items().collect();
        let mut why: Vec<String> = Vec::new();
        if E::BITS != BITS { why.push(format!("BITS = {} want {}", E::BITS, BITS)); }
        if items.len() != N { why.push(format!("items() has {} symbols want {}", items.len(), N)); }
        for (i, x) in items.iter().enumerate().take(N) {
            if x.to_bits() != CODE[i] { why.push(format!("items()[{i}].to_bits() = {} want {}", x.to_bits(), CODE[i])); }
            if x.to_char() != CH[i] as char { why.push(format!("items()[{i}].to_char() = {:?} want {:?}", x.to_char(), CH[i] as char)); }
        }
        let idx = |x: E| items.iter().position(|y| *y == x).map(|p| p as i16).unwrap_or(-2);
        for b in 0..=255u8 {
            let got = std::panic::catch_unwind(|| E::try_from_bits(b)).unwrap_or(None).map(idx).unwrap_or(-1);
            if got != DEC[b as usize] { why.push(format!("try_from_bits({b}) -> variant {got} want {}", DEC[b as usize])); }
            if DEC[b as usize] >= 0 {
                let u = std::panic::catch_unwind(|| E::unsafe_from_bits(b)).map(idx).unwrap_or(-3);
                if u != DEC[b as usize] { why.push(format!("unsafe_from_bits({b}) -> variant {u} want {}", DEC[b as usize])); }
            }
            let got = std::panic::catch_unwind(|| E::try_from_ascii(b)).unwrap_or(None).map(idx).unwrap_or(-1);
            if got != ASC[b as usize] { why.push(format!("try_from_ascii({b}) -> variant {got} want {}", ASC[b as usize])); }
            if ASC[b as usize] >= 0 {
                let u = std::panic::catch_unwind(|| E::unsafe_from_ascii(b)).map(idx).unwrap_or(-3);
                if u != ASC[b as usize] { why.push(format!("unsafe_from_ascii({b}) -> variant {u} want {}", ASC[b as usize])); }
            }
        }
        if !why.is_empty() { println!("FAIL {tag} :: {}", why[..why.len().min(4)].join("; ")); }
    }
'''

SEQ_LAWS = r'''
fn seq_laws<A: Codec>(tag: &str, maxlen: usize) {
    use std::hash::{Hash, Hasher};
    let al: Vec<A> = A::items().collect();
    let m = al.len();
    let mut why: Vec<String> = Vec::new();
    let mut state = 12345u64;
    for n in 0..=maxlen {
        for rep in 0..(if n <= 3 { m.pow(n as u32).min(64) } else { 6 }) {
            let v: Vec<A> = (0..n).map(|i| { state = state.wrapping_mul(6364136223846793005).wrapping_add(1442695040888963407); if n <= 3 { al[(rep / m.pow(i as u32)) % m] } else { al[(state >> 33) as usize % m] } }).collect();
            let text: String = v.iter().map(|a| a.to_char()).collect();
            let seq = match Seq::<A>::try_from(text.as_str()) { Ok(s) => s, Err(e) => { why.push(format!("parse {text:?}: {e:?}")); continue } };
            if seq.len() != n || seq.to_string() != text || seq.iter().collect::<Vec<A>>() != v { why.push(format!("round trip of {text:?}")); }
            let collected: Seq<A> = v.iter().copied().collect();
            if collected != seq { why.push(format!("collect != parse for {text:?}")); }
            for a in 0..=n { for b in a..=n {
                let s = &seq[a..b];
                if s.len() != b - a || s.to_string() != text[a..b] { why.push(format!("slice {a}..{b} of {text:?}")); }
                let o = s.to_owned();
                let mut h1 = std::collections::hash_map::DefaultHasher::new(); s.hash(&mut h1);
                let mut h2 = std::collections::hash_map::DefaultHasher::new(); o.hash(&mut h2);
                if !(o == s) || h1.finish() != h2.finish() { why.push(format!("owned copy of slice {a}..{b} of {text:?} differs")); }
            } }
            let r: String = text.chars().rev().collect();
            if seq.to_rev().to_string() != r || seq.to_rev().to_rev() != seq { why.push(format!("to_rev of {text:?}")); }
            if n > 0 { let mut e = seq.clone(); e.push(al[0]); e.remove(0..1); let want: String = text[1..].chars().chain(std::iter::once(al[0].to_char())).collect(); if e.to_string() != want { why.push(format!("push/remove on {text:?}")); } }
        }
    }
    // a rejected byte is reported exactly
    for b in 0..=255u8 { if A::try_from_ascii(b).is_none() {
        let mut t = vec![al[0].to_char() as u8; 3]; t[1] = b;
        match Seq::<A>::try_from(&t[..]) { Err(ParseBioError::UnrecognisedBase(x)) if x == b => {}, other => why.push(format!("byte {b} inside a string: {:?}", other.map(|s| s.to_string()))) }
    } }
    if !why.is_empty() { println!("FAIL {tag} :: {}", why[..why.len().min(4)].join("; ")); }
}

/// k-mers over a derived codec: text -> k-mer -> text, construction from slices, iteration, equality with text,
/// conversion back to a sequence, in the word-sized and the 64/128-bit storages
fn kmer_laws<A: Codec, const K: usize>(tag: &str) {
    let al: Vec<A> = A::items().collect();
    let m = al.len();
    let mut why: Vec<String> = Vec::new();
    let total = m.checked_pow(K as u32).filter(|t| *t <= 512);
    let mut state = 99u64;
    for rep in 0..total.unwrap_or(96) {
        let v: Vec<A> = (0..K).map(|i| { state = state.wrapping_mul(6364136223846793005).wrapping_add(1442695040888963407); if total.is_some() { al[(rep / m.pow(i as u32)) % m] } else { al[(state >> 33) as usize % m] } }).collect();
        let text: String = v.iter().map(|a| a.to_char()).collect();
        let r = std::panic::catch_unwind(std::panic::AssertUnwindSafe(|| {
            let mut w: Vec<String> = Vec::new();
            let seq: Seq<A> = v.iter().copied().collect();
            let k = match Kmer::<A, K>::from_str(&text) { Ok(k) => k, Err(e) => return vec![format!("Kmer::from_str({text:?}): {e:?}")] };
            if k.to_string() != text { w.push(format!("display of {text:?} = {:?}", k.to_string())); }
            if format!("{k}") != text { w.push(format!("format of {text:?}")); }
            if !(k == text.as_str()) { w.push(format!("kmer != its text {text:?}")); }
            match Kmer::<A, K>::try_from(&seq[..]) { Ok(k2) => { if k2 != k || k2.to_string() != text { w.push(format!("try_from(slice) differs for {text:?}")); } }, Err(e) => w.push(format!("try_from(slice {text:?}): {e:?}")) }
            let back: Seq<A> = k.into();
            if back != seq || back.to_string() != text { w.push(format!("Seq::from(kmer {text:?}) = {back}")); }
            let k64 = Kmer::<A, K, u64>::from_str(&text).map(|k| k.to_string());
            if k64.as_deref() != Ok(text.as_str()) { w.push(format!("Kmer<_,_,u64> {text:?} -> {k64:?}")); }
            let k128 = Kmer::<A, K, u128>::from_str(&text).map(|k| k.to_string());
            if k128.as_deref() != Ok(text.as_str()) { w.push(format!("Kmer<_,_,u128> {text:?} -> {k128:?}")); }
            // iteration over a longer sequence: window i is symbols i..i+K
            let mut long = seq.clone(); long.extend(v.iter().rev().copied()); long.push(al[0]);
            let lt = long.to_string();
            let got: Vec<String> = long.kmers::<K>().map(|k| k.to_string()).collect();
            let want: Vec<String> = (0..=lt.len() - K).map(|i| lt[i..i + K].to_string()).collect();
            if got != want { w.push(format!("kmers::<{K}>() of {lt:?} = {got:?}")); }
            w
        }));
        match r { Ok(w) => why.extend(w), Err(_) => why.push(format!("a k-mer operation on {text:?} (K = {K}) panicked")) }
        if why.len() > 8 { break; }
    }
    if !why.is_empty() { println!("FAIL {tag} :: {}", why[..why.len().min(4)].join("; ")); }
}
'''


# G6: derived codecs of widths 1, 3, 5, 7, 8 that are run through the generic sequence laws
LAWS_TAGS = {"G9 no zero code (3 bits)", "G9 no zero code (2 bits)", "G9 no zero code (8 bits, letters)", "G8 names: lower-case r-names", "G2 max=1 bits=1", "G5 variants=5", "G5 variants=17", "G2 max=127 bits=7", "G2 max=128 bits=8", "G5 variants=40 high discriminants"}


def module_source(i, d):
    dec, asc = tables(d)
    lines = [f"mod d{i} {{", "    use bio_seq::prelude::*;", "    use bio_seq::codec::Codec;"]
    lines += ["    " + ln for ln in d.source("E")]
    lines.append(f"    const BITS: u8 = {d.expected_bits()};")
    lines.append(f"    const N: usize = {len(d.variants)};")
    lines.append("    const CODE: [u8; N] = [" + ", ".join(str(v[1]) for v in d.variants) + "];")
    lines.append("    const CH: [u8; N] = [" + ", ".join(str(ord(d.display(v))) for v in d.variants) + "];")
    lines.append("    const DEC: [i16; 256] = [" + ", ".join(map(str, dec)) + "];")
    lines.append("    const ASC: [i16; 256] = [" + ", ".join(map(str, asc)) + "];")
    lines += CHECK_FN.strip("\n").split("\n")
    lines.append("}")
    return lines


def positive_programs(res, decls, root, env, release, tag, with_laws=True):
    profile = "release" if release else "dev"
    proj = progs.project(root, f"c17pos{profile}{tag}")
    nb = 16 if len(decls) > 16 else 1
    chunks = [[] for _ in range(nb)]
    for i, d in enumerate(decls):
        chunks[i % nb].append((i, d))
    ranges = {}
    for b, ch in enumerate(chunks):
        src = ["#![allow(unused, unreachable_patterns)]", "use bio_seq::prelude::*;"]
        src += SEQ_LAWS.strip("\n").split("\n")
        for i, d in ch:
            start = len(src) + 1
            src += module_source(i, d)
            ranges[(b, i)] = (start, len(src))
        src.append("fn main() {")
        for i, d in ch:
            src.append(f"    d{i}::check({progs.rust_str(str(i))});")
        if with_laws:
            for i, d in ch:
                if d.tag in LAWS_TAGS:
                    ml = 2 * (64 // max(1, d.expected_bits())) + 2 if d.expected_bits() >= 3 else 70
                    src.append(f"    seq_laws::<d{i}::E>({progs.rust_str('laws ' + str(i))}, {min(ml, 24) if d.expected_bits() >= 3 else 70});")
                    kmax = 64 // d.expected_bits()
                    for k in sorted({1, 2, 3, max(1, kmax - 1), kmax}):
                        src.append(f"    kmer_laws::<d{i}::E, {k}>({progs.rust_str('laws ' + str(i))});")
        src.append(f"    println!(\"DONE {len(ch)}\");")
        src.append("}")
        progs.write_bin(proj, f"q{b}", "\n".join(src) + "\n")
    ok, msgs, err = progs.build_bins(proj, root, env, release=release)
    broken = set()
    if not ok:
        for b, ch in enumerate(chunks):
            el = progs.error_lines(msgs, f"src/bin/q{b}.rs")
            for (bb, i), (lo, hi) in ranges.items():
                if bb != b:
                    continue
                hit = [t for ln, ts in el.items() if lo <= ln <= hi for t in ts]
                if hit:
                    broken.add(i)
                    d = decls[i]
                    res.violation("derive/valid-declaration-does-not-compile", f"[{profile}] {d.tag}: {hit[0][:240]}", {"kind": "positive", "decl": d.describe(), "release": release})
        if not broken:
            raise RuntimeError("derive programs do not build and no declaration is to blame:\n" + err[-3000:])
        # rebuild without the broken declarations so that the rest is still checked
        rest = [d for i, d in enumerate(decls) if i not in broken]
        if rest and len(rest) < len(decls):
            positive_programs(res, rest, root, env, release, tag + "r", with_laws)
        return
    for b, ch in enumerate(chunks):
        rc, out, errtxt = progs.run_exe(root, "release" if release else "debug", f"q{b}")
        done = False
        for line in out.splitlines():
            if line.startswith("FAIL "):
                head, why = line[5:].split(" :: ", 1)
                if head.startswith("laws "):
                    d = decls[int(head[5:])]
                    res.violation("derive/sequence-laws-fail-over-derived-codec", f"[{profile}] {d.tag}: {why[:300]}", {"kind": "positive", "decl": d.describe(), "release": release})
                else:
                    d = decls[int(head)]
                    cls = "wrong-width" if "BITS" in why else "wrong-tables"
                    res.violation(f"derive/{cls}", f"[{profile}] {d.tag}: {why[:300]}", {"kind": "positive", "decl": d.describe(), "release": release})
            if line.startswith("DONE"):
                done = True
        if rc != 0 or not done:
            res.violation("derive-program/crashes", f"[{profile}] program q{b} exited with {rc}: {errtxt[-400:]}", {"kind": "positive-program"})
    for i, d in enumerate(decls):
        res.case(d.describe() if i % 37 == 0 else None)
        res.check(256 * 4 + 2 * len(d.variants) + 2)
        res.outcome((d.tag.split()[0], d.expected_bits(), len(d.variants)))


NEGATIVE = [
    ("struct", ["#[derive(Clone, Copy, Debug, PartialEq, Eq, Hash, Codec)]", "pub struct S { a: u8 }"]),
    ("union", ["#[derive(Codec)]", "pub union U { a: u8, b: u8 }"]),
    ("missing discriminant (first)", ["#[derive(Clone, Copy, Debug, PartialEq, Eq, Hash, Codec)]", "pub enum E { A, C = 1, G = 2 }"]),
    ("missing discriminant (middle)", ["#[derive(Clone, Copy, Debug, PartialEq, Eq, Hash, Codec)]", "pub enum E { A = 0, C, G = 2 }"]),
    ("missing discriminant (last)", ["#[derive(Clone, Copy, Debug, PartialEq, Eq, Hash, Codec)]", "pub enum E { A = 0, C = 1, G }"]),
    ("float discriminant", ["#[derive(Clone, Copy, Debug, PartialEq, Eq, Hash, Codec)]", "pub enum E { A = 0, C = 1.0 }"]),
    ("string discriminant", ["#[derive(Clone, Copy, Debug, PartialEq, Eq, Hash, Codec)]", "pub enum E { A = 0, C = \"1\" }"]),
    ("bool discriminant", ["#[derive(Clone, Copy, Debug, PartialEq, Eq, Hash, Codec)]", "pub enum E { A = 0, C = true }"]),
    ("negative discriminant", ["#[derive(Clone, Copy, Debug, PartialEq, Eq, Hash, Codec)]", "pub enum E { A = 0, C = -1 }"]),
    ("too-small width (max 7, bits 2)", ["#[derive(Clone, Copy, Debug, PartialEq, Eq, Hash, Codec)]", "#[bits(2)]", "pub enum E { A = 0, C = 7 }"]),
    ("too-small width (max 4, bits 2)", ["#[derive(Clone, Copy, Debug, PartialEq, Eq, Hash, Codec)]", "#[bits(2)]", "pub enum E { A = 0, C = 4 }"]),
    ("too-small width (max 128, bits 7)", ["#[derive(Clone, Copy, Debug, PartialEq, Eq, Hash, Codec)]", "#[bits(7)]", "#[repr(u8)]", "pub enum E { A = 0, C = 128 }"]),
    ("too-small width (max 16, bits 4)", ["#[derive(Clone, Copy, Debug, PartialEq, Eq, Hash, Codec)]", "#[bits(4)]", "pub enum E { A = 0, C = 16 }"]),
    ("malformed #[bits] (string)", ["#[derive(Clone, Copy, Debug, PartialEq, Eq, Hash, Codec)]", "#[bits(\"3\")]", "pub enum E { A = 0, C = 1 }"]),
    ("malformed #[bits] (no argument)", ["#[derive(Clone, Copy, Debug, PartialEq, Eq, Hash, Codec)]", "#[bits]", "pub enum E { A = 0, C = 1 }"]),
    ("malformed #[bits] (two arguments)", ["#[derive(Clone, Copy, Debug, PartialEq, Eq, Hash, Codec)]", "#[bits(3, 4)]", "pub enum E { A = 0, C = 1 }"]),
    ("variant with fields", ["#[derive(Clone, Copy, Debug, PartialEq, Eq, Hash, Codec)]", "pub enum E { A = 0, C(u8) = 1 }"]),
    ("discriminant 256", ["#[derive(Clone, Copy, Debug, PartialEq, Eq, Hash, Codec)]", "pub enum E { A = 0, B = 1, C = 256 }"]),
    ("discriminants 256 and 258", ["#[derive(Clone, Copy, Debug, PartialEq, Eq, Hash, Codec)]", "pub enum E { A = 0, B = 1, C = 256, D = 258 }"]),
    ("discriminant 1000 with bits(8)", ["#[derive(Clone, Copy, Debug, PartialEq, Eq, Hash, Codec)]", "#[bits(8)]", "pub enum E { A = 0, C = 1000 }"]),
    ("discriminant 0x1_00", ["#[derive(Clone, Copy, Debug, PartialEq, Eq, Hash, Codec)]", "pub enum E { A = 0, C = 0x1_00 }"]),
]
GOOD = ["#[derive(Clone, Copy, Debug, PartialEq, Eq, Hash, Codec)]", "#[bits(3)]", "pub enum E { A = 0, C = 5, #[display('*')] X = 7 }"]


def negative_program(res, root, env, release, only=None):
    profile = "release" if release else "dev"
    proj = progs.project(root, f"c17neg{profile}")
    src = ["#![allow(unused)]", "use bio_seq::prelude::*;", "use bio_seq::codec::Codec;"]
    ranges = []
    items = [(n, l) for (n, l) in NEGATIVE if only is None or n == only]
    for k, (name, lines) in enumerate(items):
        for (nm, ls, bad) in ((f"good{k}", GOOD, False), (name, lines, True)):
            start = len(src) + 1
            src.append(f"mod m{len(ranges)} {{")
            src.append("    use bio_seq::prelude::*; use bio_seq::codec::Codec;")
            src += ["    " + x for x in ls]
            src.append("}")
            ranges.append((nm, start, len(src), bad))
    src.append("fn main() {}")
    progs.write_bin(proj, "neg", "\n".join(src) + "\n")
    rc, msgs, err = progs.check_bin(proj, root, env, "neg", release=release)
    el = progs.error_lines(msgs, "src/bin/neg.rs")
    for (nm, lo, hi, bad) in ranges:
        res.case({"declaration": nm, "malformed": bad} if bad else None)
        res.check()
        hit = [t for ln, ts in el.items() if lo <= ln <= hi for t in ts]
        res.outcome((nm if bad else "good", bool(hit)))
        if bad and not hit:
            res.violation("derive/malformed-declaration-compiles", f"[{profile}] {nm}: the declaration is accepted by the compiler", {"kind": "negative", "name": nm, "release": release})
        if not bad and hit:
            res.violation("derive/valid-declaration-rejected", f"[{profile}] {nm}: {hit[0][:200]}", {"kind": "negative-control", "name": nm, "release": release})


def run(tier, seed, root, env):
    out = []
    decls = grammar(tier, seed)
    for release in (False, True):
        res = progs.Result("C17", "E3-derive-programs", "release" if release else "dev", tier, seed, "c17")
        positive_programs(res, decls, root, env, release, "")
        negative_program(res, root, env, release)
        res.count("enum declarations compiled with the real derive and checked over all 256 bytes", len(decls))
        res.count("malformed declarations checked for a compile error", len(NEGATIVE))
        res.r["extra"] = {"engine": "E3 program generator", "grammar": ["G1 {A=0,Z=m}", "G2 declared widths", "G3 literal forms", "G4 alternatives/display over 3-bit codes", "G5 variant counts 2..40", "G6 sequence laws over derived codecs (widths by G2/G5)"]}
        out.append(res.done())
    return out


def replay(rec, root, env):
    c = rec["case"]
    res = progs.Result("C17", "E3-derive-programs", "x", "quick", 0, "c17")
    if c["kind"] == "positive":
        dd = c["decl"]
        vs = []
        for (name, lit, disp, alts) in dd["variants"]:
            val = ord(lit[2]) if lit.startswith("b'") else int(lit.replace("u8", "").replace("_", ""), 0)
            vs.append((name, val, lit, disp, alts))
        positive_programs(res, [Decl(dd["tag"], vs, dd["bits"], dd.get("layout", 0), dd.get("decor", 0))], root, env, c["release"], "replay")
    elif c["kind"].startswith("negative"):
        negative_program(res, root, env, c["release"], only=c["name"] if c["kind"] == "negative" else None)
    r = res.done()
    for v in r["violations"]:
        print(f"reproduced: {v['sig']}: {v['examples'][0]['detail'][:400]}")
    if r["violations"]:
        return 1
    print("replay: no violation (the case passes on this tree)")
    return 0
