"""C16 / E3 - compile-time literals equal runtime parsing; invalid literals do not compile.
Generates programs in which every literal is a separate expansion of the real dna!/iupac!/kmer!
macros, builds them against /repo's working tree, runs the positive ones (each literal is compared
with Seq::try_from(text) for length, symbols, ==, hasher input, display) and checks with
--message-format=json that every offending line, and only those, carries a compile error."""
import progs

PRELUDE = r'''
#![allow(unused)]
use bio_seq::prelude::*;
use std::hash::{Hash, Hasher};

#[derive(Default)]
struct Rec(Vec<u8>);
impl Hasher for Rec {
    fn finish(&self) -> u64 { 0 }
    fn write(&mut self, b: &[u8]) { self.0.extend_from_slice(b) }
}
fn rec<T: Hash + ?Sized>(t: &T) -> Vec<u8> { let mut r = Rec::default(); t.hash(&mut r); r.0 }

fn chk<A: Codec>(id: u32, lit: &SeqSlice<A>, text: &str) {
    let parsed = match Seq::<A>::try_from(text) {
        Ok(s) => s,
        Err(e) => { println!("FAIL {id} runtime parser rejects the text: {e:?}"); return; }
    };
    let mut why: Vec<&str> = Vec::new();
    if lit.len() != text.len() || lit.len() != parsed.len() { why.push("length"); }
    if !(lit == &*parsed) || !(*parsed == *lit) || !(parsed == lit) { why.push("=="); }
    if lit.iter().collect::<Vec<A>>() != parsed.iter().collect::<Vec<A>>() { why.push("symbols"); }
    if lit.to_string() != parsed.to_string() || lit.to_string() != text { why.push("display"); }
    if rec(lit) != rec(&*parsed) || rec(&lit) != rec(&&*parsed) { why.push("hash"); }
    if !why.is_empty() { println!("FAIL {id} literal differs from runtime parse in: {}", why.join(",")); }
}

fn chk_kmer<const K: usize, S: bio_seq::kmer::KmerStorage>(id: u32, k: Kmer<Dna, K, S>, text: &str)
where Kmer<Dna, K, S>: std::fmt::Display + Hash + PartialEq<SeqSlice<Dna>> + std::str::FromStr + PartialEq {
    let parsed = match Seq::<Dna>::try_from(text) {
        Ok(s) => s,
        Err(e) => { println!("FAIL {id} runtime parser rejects the text: {e:?}"); return; }
    };
    let mut why: Vec<&str> = Vec::new();
    if K != text.len() || k.len() != K { why.push("length"); }
    if !(k == *parsed) { why.push("=="); }
    if k.to_string() != text { why.push("display"); }
    if rec(&k) != rec(&*parsed) { why.push("hash"); }
    match text.parse::<Kmer<Dna, K, S>>() { Ok(p) => if !(p == k) { why.push("from_str") }, Err(_) => why.push("from_str-fails") }
    if !why.is_empty() { println!("FAIL {id} k-mer literal differs from runtime parse in: {}", why.join(",")); }
}
'''

DNA = "ACGT"
IUPAC = "ACGTRYSWKMBDHVN-"


def lcg(seed):
    x = (seed * 2654435761 + 12345) & 0xFFFFFFFF
    while True:
        x = (x * 1664525 + 1013904223) & 0xFFFFFFFF
        yield x >> 16


def background(alpha, n, seed):
    g = lcg(seed)
    return "".join(alpha[next(g) % len(alpha)] for _ in range(n))


def all_strings(alpha, n):
    if n == 0:
        yield ""
        return
    for s in all_strings(alpha, n - 1):
        for c in alpha:
            yield s + c


def positions(n, thorough):
    if thorough:
        return list(range(n))
    ps = {0, n - 1, n // 2}
    for b in (31, 32, 63, 64, 127, 128):
        for p in (b - 1, b, b + 1):
            if 0 <= p < n:
                ps.add(p)
    return sorted(ps)


def positive(tier, seed):
    """[(macro, storage, text)]"""
    th = tier == "thorough"
    out = []
    for n in range(0, (5 if th else 4) + 1):
        out += [("dna", None, s) for s in all_strings(DNA, n)]
    for n in [31, 32, 33, 63, 64, 65, 127, 128, 129, 200]:
        for v in range(2):
            base = background(DNA, n, seed + 10 * n + v)
            out.append(("dna", None, base))
            if v == 0:
                for p in positions(n, th):
                    for c in DNA:
                        if c != base[p]:
                            out.append(("dna", None, base[:p] + c + base[p + 1:]))
    # very long literals (beyond 64 machine words), where a macro might switch to another expansion strategy
    # (literals of more than about 5000 bits do not compile at all: bitvec's bitarr! recursion exhausts rustc's
    # recursion limit - or, with a raised limit, rustc's stack. That is a compile-time resource error, never a
    # wrong value, and lies outside this grammar.)
    for n in ([1000, 2049, 2100, 2200] if th else [2049, 2100]):
        base = background(DNA, n, seed + 7000 + n)
        out.append(("dna", None, base))
        out.append(("dna", None, base[:n - 1] + DNA[(DNA.index(base[n - 1]) + 1) % 4]))
    for n in ([513, 1025, 1100, 1150] if th else [1025, 1100]):
        base = background(IUPAC, n, seed + 7100 + n)
        out.append(("iupac", None, base))
        out.append(("iupac", None, IUPAC[(IUPAC.index(base[0]) + 1) % 16] + base[1:]))
    for n in range(0, (2 if th else 1) + 1):
        out += [("iupac", None, s) for s in all_strings(IUPAC, n)]
    for n in [3, 15, 16, 17, 31, 32, 33, 63, 64, 65]:
        for v in range(2):
            base = background(IUPAC, n, seed + 1000 + 10 * n + v)
            out.append(("iupac", None, base))
            if v == 0:
                for p in (positions(n, th) if th else [0, n // 2, n - 1]):
                    for c in IUPAC:
                        if c != base[p]:
                            out.append(("iupac", None, base[:p] + c + base[p + 1:]))
    ks = range(1, 33) if th else [1, 2, 3, 7, 16, 31, 32]
    for k in ks:
        for v in range(2 if th else 1):
            out.append(("kmer", None, background(DNA, k, seed + 2000 + k + 100 * v)))
            out.append(("kmer", "u64", background(DNA, k, seed + 3000 + k + 100 * v)))
    for k in (range(1, 65) if th else [1, 31, 32, 33, 63, 64]):
        out.append(("kmer", "u128", background(DNA, k, seed + 4000 + k)))
    # the same string value in Rust's other literal spellings (raw strings, \\x and \\u escapes): a macro has to
    # take the literal's VALUE, not its source text
    for sp in SPELLINGS:
        for mac, alpha, lens in [("dna", DNA, [0, 1, 4, 33]), ("iupac", IUPAC, [1, 5, 17])]:
            for n in lens:
                if n == 0 and sp in ("hex", "uni", "mixed"):
                    continue
                out.append((mac, None, background(alpha, n, seed + 8000 + n), sp))
        for st in [None, "u64", "u128"]:
            out.append(("kmer", st, background(DNA, 5, seed + 8100), sp))
    # dedupe, keep order
    seen = set()
    res = []
    for x in out:
        if x not in seen:
            seen.add(x)
            res.append(x)
    return res


BAD = {
    "dna": [("lower-case", "a"), ("lower-case", "t"), ("ambiguity-letter", "N"), ("ambiguity-letter", "R"), ("other-letter", "U"), ("other-letter", "X"), ("digit", "1"),
            ("whitespace", " "), ("whitespace", "\n"), ("punctuation", "-"), ("non-ascii", "é"), ("non-ascii", "😀")],
    "iupac": [("lower-case", "a"), ("lower-case", "n"), ("other-letter", "U"), ("other-letter", "Z"), ("digit", "1"), ("whitespace", " "), ("whitespace", "\n"),
              ("punctuation", "."), ("non-ascii", "é"), ("non-ascii", "😀")],
}
BAD["kmer"] = BAD["dna"]


def negative(tier, seed):
    """[(macro, storage, text, bad_class or None)] - good lines (None) interleaved with offending ones"""
    th = tier == "thorough"
    out = []
    for mac, storage in [("dna", None), ("iupac", None), ("kmer", None), ("kmer", "usize"), ("kmer", "u64"), ("kmer", "u128")]:
        alpha = IUPAC if mac == "iupac" else DNA
        lens = [1, 2, 5, 16, 32] if mac == "kmer" else [1, 2, 5, 16, 32, 33, 65, 130]
        if storage == "u128":
            lens = [1, 5, 33, 64]
        if not th:
            lens = (lens[:5] + lens[6:7]) if not storage else [lens[0], lens[2], lens[-1]]
        for n in lens:
            base = background(alpha, n, seed + 5000 + n)
            out.append((mac, storage, base, None))
            pos = sorted(set(range(n)) if (th and n <= 33) else {0, n // 2, n - 1})
            for p in pos:
                for cls, ch in BAD[mac]:
                    out.append((mac, storage, base[:p] + ch + base[p + 1:], cls))
                out.append((mac, storage, background(alpha, n, seed + 6000 + n + p), None))
    # the other literal spellings: valid ones interleaved with ones whose VALUE has an offending character
    for sp in SPELLINGS:
        for mac, storage in [("dna", None), ("iupac", None), ("kmer", None), ("kmer", "u64")]:
            alpha = IUPAC if mac == "iupac" else DNA
            base = background(alpha, 6, seed + 9000)
            out.append((mac, storage, base, None, sp))
            for cls, ch in BAD[mac]:
                if ch in ('"', "\\", "\n") or (sp in ("raw", "rawhash") and ch == "\n"):
                    continue
                out.append((mac, storage, base[:2] + ch + base[3:], cls, sp))
    return out


SPELLINGS = ["raw", "rawhash", "hex", "uni", "mixed"]


def spell(text, spelling):
    """The literal token for `text` in one of Rust's other spellings of the same string value."""
    if spelling is None:
        return progs.rust_str(text)
    if spelling == "raw":
        return 'r"' + text + '"'
    if spelling == "rawhash":
        return 'r##"' + text + '"##'
    if spelling == "hex":
        return '"' + "".join(f"\\x{ord(c):02x}" if ord(c) < 128 else c for c in text) + '"'
    if spelling == "uni":
        return '"' + "".join(f"\\u{{{ord(c):x}}}" for c in text) + '"'
    if spelling == "mixed":
        return '"' + "".join((f"\\x{ord(c):02X}" if i % 3 == 1 and ord(c) < 128 else (f"\\u{{{ord(c):04X}}}" if i % 3 == 2 else c)) for i, c in enumerate(text)) + '"'
    raise ValueError(spelling)


def lit_expr(mac, storage, text, spelling=None):
    s = spell(text, spelling)
    if mac == "kmer":
        return f"kmer!({s}, {storage})" if storage else f"kmer!({s})"
    return f"{mac}!({s})"


def pos_line(i, mac, storage, text, spelling=None):
    s = progs.rust_str(text)
    if mac == "dna":
        return f"    chk::<Dna>({i}, {lit_expr(mac, storage, text, spelling)}, {s});"
    if mac == "iupac":
        return f"    chk::<Iupac>({i}, {lit_expr(mac, storage, text, spelling)}, {s});"
    return f"    chk_kmer({i}, {lit_expr(mac, storage, text, spelling)}, {s});"


def run_positive(res, lits, root, env, tag):
    proj = progs.project(root, "c16pos" + tag)
    nb = 16
    chunks = [[] for _ in range(nb)]
    for i, l in enumerate(lits):
        chunks[i % nb].append((i, l))
    for b, ch in enumerate(chunks):
        body = "\n".join(pos_line(i, *l) for i, l in ch)
        # every chunk is one function per 200 literals to keep rustc's per-function cost bounded
        progs.write_bin(proj, f"p{b}", PRELUDE + "\nfn main() {\n" + body + f"\n    println!(\"DONE {len(ch)}\");\n}}\n")
    ok, msgs, err = progs.build_bins(proj, root, env)
    bad_ids = set()
    if not ok:
        # which literal lines do not compile?
        for b, ch in enumerate(chunks):
            el = progs.error_lines(msgs, f"src/bin/p{b}.rs")
            first = PRELUDE.count("\n") + 2
            for ln, texts in el.items():
                k = ln - first - 1
                if 0 <= k < len(ch):
                    i, l = ch[k]
                    bad_ids.add(i)
                    res.violation(f"{l[0]}!/valid-literal-does-not-compile", f"{lit_expr(*l)} does not compile: {texts[0][:200]}", {"kind": "positive", "macro": l[0], "storage": l[1], "text": l[2], "spelling": (l[3] if len(l) > 3 else None)})
        if not bad_ids:
            raise RuntimeError("positive programs do not build and no literal line is to blame:\n" + err[-3000:])
        return
    for b, ch in enumerate(chunks):
        rc, out, errtxt = progs.run_exe(root, "debug", f"p{b}")
        done = False
        for line in out.splitlines():
            if line.startswith("FAIL "):
                _, i, why = line.split(" ", 2)
                l = lits[int(i)]
                res.violation(f"{l[0]}!/literal-differs-from-runtime-parse", f"{lit_expr(*l)}: {why}", {"kind": "positive", "macro": l[0], "storage": l[1], "text": l[2], "spelling": (l[3] if len(l) > 3 else None)})
            if line.startswith("DONE"):
                done = True
        if rc != 0 or not done:
            res.violation("literal-program/crashes", f"program p{b} exited with {rc}: {errtxt[-400:]}", {"kind": "positive-program", "bin": f"p{b}"})
    for i, l in enumerate(lits):
        res.case({"macro": l[0], "storage": l[1], "text": l[2][:80], "len": len(l[2])} if i % 97 == 0 else None)
        res.check(5)
        res.outcome((l[0], len(l[2])))


def run_negative(res, negs, root, env, tag):
    proj = progs.project(root, "c16neg" + tag)
    head = "#![allow(unused)]\nuse bio_seq::prelude::*;\nfn main() {\n"
    first = head.count("\n") + 1
    negs = [n if len(n) > 4 else tuple(n) + (None,) for n in negs]
    lines = [f"    let _ = {lit_expr(m, st, t, sp)};" for (m, st, t, c, sp) in negs]
    progs.write_bin(proj, "neg", head + "\n".join(lines) + "\n}\n")
    rc, msgs, err = progs.check_bin(proj, root, env, "neg")
    el = progs.error_lines(msgs, "src/bin/neg.rs")
    for k, (m, st, t, c, sp) in enumerate(negs):
        ln = first + k
        res.case({"macro": m, "storage": st, "text": t[:60], "offending": c} if k % 41 == 0 else None)
        res.check()
        has = ln in el
        res.outcome((m, st, c, has))
        form = f"{m}!" if not st else f"{m}!(_, {st})"
        if c and not has:
            res.violation(f"{form}/invalid-literal-compiles/{c}", f"{lit_expr(m, st, t, sp)} (offending character class: {c}) is accepted by the compiler", {"kind": "negative", "macro": m, "storage": st, "text": t, "class": c, "spelling": sp})
        if not c and has:
            res.violation(f"{form}/valid-literal-rejected", f"{lit_expr(m, st, t, sp)} is rejected: {el[ln][0][:200]}", {"kind": "negative", "macro": m, "storage": st, "text": t, "class": None, "spelling": sp})


def run(tier, seed, root, env):
    res = progs.Result("C16", "E3-literal-programs", "dev", tier, seed, "c16")
    lits = positive(tier, seed)
    negs = negative(tier, seed)
    run_positive(res, lits, root, env, "")
    run_negative(res, negs, root, env, "")
    res.count("positive literals (each a separate macro expansion, compiled and run)", len(lits))
    res.count("negative lines checked for a compile error", sum(1 for n in negs if n[3]))
    res.count("valid control lines interleaved with the negative ones", sum(1 for n in negs if not n[3]))
    res.r["extra"] = {"engine": "E3 program generator", "lengths_dna": [31, 32, 33, 63, 64, 65, 127, 128, 129, 200], "lengths_iupac": [3, 15, 16, 17, 31, 32, 33, 63, 64, 65]}
    return [res.done()]


def replay(rec, root, env):
    c = rec["case"]
    res = progs.Result("C16", "E3-literal-programs", "dev", "quick", 0, "c16")
    if c["kind"] == "negative":
        run_negative(res, [(c["macro"], c.get("storage"), c["text"], c["class"], c.get("spelling"))], root, env, "replay")
    else:
        run_positive(res, [(c["macro"], c.get("storage"), c["text"], c.get("spelling"))], root, env, "replay")
    r = res.done()
    for v in r["violations"]:
        print(f"reproduced: {v['sig']}: {v['examples'][0]['detail'][:400]}")
    if r["violations"]:
        return 1
    print("replay: no violation (the case passes on this tree)")
    return 0
