"""Property table for the driver: which engine parts decide each property, the
enumeration rule, the bound per tier and the assumptions (trusted base)."""

COMMON_ASSUME = [
    "x86_64 Linux, 64-bit usize, rustc on PATH; other targets (32-bit, wasm) are not covered",
    "bitvec 1.0.1 as pinned by Cargo.lock is part of the implementation under test, not of the oracle",
    "the reference model (lists of symbols, integers, hand-typed tables in bsv/src/spec.rs and bsv/src/model.rs) is correct; spec::self_test cross-checks the tables",
    "both harness profiles are run: release (debug-assertions off) and relassert (release + debug-assertions + overflow-checks)",
]

PROPS = {}
# properties not claimed yet, with the reason shown in MANIFEST.not_applicable
PENDING = {}

PROPS["C05"] = {
    "parts": [{"kind": "bin", "bin": "c05"}],
    "exhaustive": True,
    "rule": "complete enumeration of a finite domain: one case per (codec, byte value) running all four decoders, one per (codec, symbol of items()) running every per-symbol law, one per codec for the alphabet laws; a case is distinct by its (codec, byte|symbol) coordinates",
    "bound": "none needed: 7 codecs x 256 byte values x 4 decoders + every symbol, complete",
    "assumptions": COMMON_ASSUME + [
        "the documented alphabets are as typed in bsv/src/spec.rs (README, codec module docs, IUPAC nomenclature, NCBI table 1)",
    ],
    "technique": "complete enumeration of a finite domain on the real code (stateless exhaustive exploration) against hand-typed spec tables",
    "level_text": "The whole domain of the property (7 codecs x 256 byte values x 4 decoders, every symbol x every table law, both build profiles) is enumerated completely on the real code and compared with hand-typed tables; within the stated target this is a complete decision, not a sample.",
    "level_note": "Trusts the hand-typed spec tables (self-tested against each other) and that debug-assertions on/off are the only build-profile coordinates that matter.",
}

PROPS["C13"] = {
    "parts": [{"kind": "bin", "bin": "c13"}],
    "exhaustive": True,
    "rule": "complete enumeration: one case per (codon, symbol offset 0..31, parent head) through STANDARD.to_amino, one per 6-bit pattern through the Amino decoders, one per (DNA sequence, offset) through windows(3)/chunks(3); distinct by coordinates",
    "bound": {"quick": "64 codons x (32 offsets + 9 headed placements); 64 patterns; every DNA sequence of length <= 5 at 2 offsets; de Bruijn B(4,3) at 32 offsets",
              "thorough": "as quick with every DNA sequence of length <= 6 and P(n) families at n in {31,32,33,64,65,66,97,130} x 3 offsets"},
    "assumptions": COMMON_ASSUME + ["NCBI translation table 1 is the 64-letter string typed in bsv/src/spec.rs (TCAG order)"],
    "technique": "complete enumeration of the finite codon x bit-offset space on the real code against the NCBI table-1 string; bounded-exhaustive sequences for windows/chunks",
    "level_text": "All 64 codons at all 32 in-word symbol offsets (including the straddling ones) and all 64 amino bit patterns are executed on the real translation code and compared with the NCBI table; the per-codon clause is decided completely, the windows/chunks clause for every sequence up to the stated length.",
    "level_note": "Trusts the typed NCBI string and the IUPAC nomenclature table; sequences longer than the bound are covered only through the position-wise structure of windows/chunks (C11).",
}

PROPS["C14"] = {
    "parts": [{"kind": "bin", "bin": "c14", "runs": [["--opt", "first=amino"], ["--opt", "first=codon"]]}],
    "exhaustive": True,
    "rule": "complete enumeration: one case per (IUPAC codon of length 3, slice offset 0..15 [+1 headed placement]) through STANDARD.try_to_amino, one per codon of length 0,1,2 (all) and 4,5,6,16,17 (P(n) family), one per amino symbol through try_to_codon and back; whole run repeated in a fresh process per first-touch order of the two lazy tables",
    "bound": {"quick": "16^3 codons x 17 placements; all codons of length <= 2; P(n) for n in {4,5,6,16,17}; 21 aminos; 2 first-touch orders x 2 profiles",
              "thorough": "as quick plus all 16^4 codons of length 4"},
    "assumptions": COMMON_ASSUME + ["NCBI table 1 and the IUPAC nomenclature as typed in bsv/src/spec.rs; the oracle expands an ambiguous codon to its concrete codons"],
    "technique": "complete enumeration of all 16^3 ambiguous codons x offsets and all 21 amino symbols on the real code, oracle computed from NCBI table 1; both first-touch orders of the lazy tables in separate processes",
    "level_text": "Every IUPAC codon (4096) at every slice offset and every amino symbol is run through the real partial translation table and compared with an oracle that expands the codon to concrete codons; soundness, completeness and the reverse direction are decided completely for the standard table.",
    "level_note": "Trusts the typed NCBI string and IUPAC sets. Error payloads (which codon/amino the error carries) are not compared, only the error kind.",
}

PROPS["C07"] = {
    "parts": [{"kind": "bin", "bin": "c07"}],
    "rule": "E2: every sequence over the whole alphabet up to |alphabet|^n <= bound, and for every length 0..2*spw+2 at every slice bit offset one pattern pair (quick) or the P(n) family (thorough); each content is run as a slice at that offset, as a fresh owned sequence and as an owned sequence copied from an offset slice, through to_rev/to_comp/to_revcomp, the in-place forms on clones, double application and both composition orders; a case is distinct by (codec, length, offset | first symbol)",
    "bound": {"quick": "all contents with |alphabet|^n <= 1e5; lengths 0..2*spw+2 x all noff offsets x 2 patterns",
              "thorough": "all contents with |alphabet|^n <= 2e6; lengths 0..2*spw+2 and {3spw-1,3spw,3spw+1,4spw+1} x all offsets x P(n)"},
    "assumptions": COMMON_ASSUME + ["complement oracle = the codec's own symbol-level complement applied position-wise (symbol tables are decided by C05)",
        "operations are position-wise separable, so every symbol at every position over two backgrounds distinguishes any per-position/per-value error (coverage argument, DESIGN.md section 2)"],
    "technique": "bounded-exhaustive enumeration of sequences x bit offsets x lengths on the real code against a list model (stateless exhaustive exploration)",
    "level_text": "Every content up to the size bound and every (length, bit offset) shape up to two machine words plus two symbols is executed through all twelve forms of the three operations on the real code and compared with list reversal / position-wise complement; involution, composition order and receiver immutability are checked on each.",
    "level_note": "Sequences longer than the bound are covered only by the separability argument; ReverseMut for SeqSlice is unreachable through the public API (no &mut SeqSlice) and is exercised via to_* only.",
}

SEP = "operations are position-wise separable, so every symbol at every position over two backgrounds, every length residue and every bit offset distinguishes any per-position/per-value/per-offset error (coverage argument of DESIGN.md section 2, not a proof)"

PROPS["C01"] = {
    "parts": [{"kind": "bin", "bin": "c01"}],
    "rule": "E2: (a) every byte string of length <= 2 over all 256 byte values; (b) every string of length <= L over accepted bytes + 6 edge-rejected bytes; (c) for every word-boundary length the P(n) family of valid strings, one rejected byte (whole rejected set) at every position, two rejected bytes at every position pair; each string goes through every parsing entry point. A case is a (codec, first byte | length) block; inputs_executed counts the strings",
    "bound": {"quick": "len<=2 over 256 bytes; len<=L with |charset|^L <= 1e7 (L=4..7 by codec); lengths WB(2 words)",
              "thorough": "len<=2 over 256 bytes; |charset|^L <= 4e8 (L=5..8); lengths WB(3 words) and every length 0..128/BITS+2"},
    "assumptions": COMMON_ASSUME + ["accepted bytes, canonical display characters and codes per codec are as typed in bsv/src/spec.rs", SEP],
    "technique": "bounded-exhaustive enumeration of byte strings x codecs x entry points on the real parser/printer against hand-typed alphabet tables (stateless exhaustive exploration)",
    "level_text": "All byte strings up to the stated lengths (every byte value in the first two positions, every mix of accepted and rejected bytes up to L, every position of a bad byte at every word-boundary length) are parsed by the real code through all eleven entry points and compared with the table oracle: acceptance, first offending byte, length, every symbol, display, display->parse->display.",
    "level_note": "Strings longer than 3 words + 1 symbol are not enumerated; the spec tables are trusted (self-tested).",
}

PROPS["C03"] = {
    "parts": [{"kind": "bin", "bin": "c03"}],
    "rule": "E2: parents of every length in 0..10 and WB(c), as owned Seq, slice at every bit offset of a flanked parent, slice of an offset-copied parent, SeqArray built from model words, Kmer deref; for every in-bounds (a,b) all seven range forms, get/nth/single index, nested re-slicing (depth 3 for n<=10, else 2), every out-of-bounds form just past the end (must panic / return None). A case is one parent (codec, kind, length, offset)",
    "bound": {"quick": "n in 0..10 + WB(2 words); all noff offsets + 9 headed placements; (a,b) complete for n<=12 else within 2 of an end or word boundary; 22 array lengths; every K (k-mer deref parents); long lengths at 4 placements",
              "thorough": "n in 0..10 + WB(3 words); 2 patterns; (a,b) complete for offsets 0,1; every K"},
    "assumptions": COMMON_ASSUME + [SEP, "out-of-bounds means just past the end (n, n+1, n+2); reversed ranges are outside the property"],
    "technique": "bounded-exhaustive enumeration of parents x range forms x (a,b) x nesting on the real Index impls against a list model",
    "level_text": "Every range form on every in-bounds (a,b) and every out-of-bounds form just past the end is executed on real parents of every kind, length residue and bit offset up to 2-3 machine words, and the returned slice is compared symbol by symbol with the list model; refusal is checked with catch_unwind.",
    "level_note": "Parents longer than 3 words and nesting deeper than 3 are outside the bound.",
}

PROPS["C11"] = {
    "parts": [{"kind": "bin", "bin": "c11"}],
    "rule": "E2: for every length in 0..12 and WB(c) at every slice bit offset (plus headed parents): iter, into_iter on &SeqSlice/&Seq, rev_iter, chain with a second slice at an independent offset, windows(w) and chunks(w) for every w in 1..=n+2, collection of chunks into Vec<Seq>; all drains capped, exhausted iterators must stay exhausted. A case is one (codec, length, offset) shape",
    "bound": {"quick": "n in 0..12 + WB(2 words), all offsets, w in 1..=n+2", "thorough": "n in 0..12 + WB(3 words), all offsets, w in 1..=n+2"},
    "assumptions": COMMON_ASSUME + [SEP],
    "technique": "bounded-exhaustive enumeration of (length, offset, width) on the real iterators against a list model, with capped drains for termination",
    "level_text": "Every iterator is drained on every shape up to 2-3 machine words at every bit offset and every width 1..n+2, item by item against the list model, with a cap that turns non-termination into a reported violation.",
    "level_note": "Lengths beyond the bound are not enumerated; iterator behaviour is uniform in length beyond word boundaries by the separability argument.",
}

PROPS["C12"] = {
    "parts": [{"kind": "bin", "bin": "c12"}],
    "rule": "E2: all 256 symbol pairs at every position of sequences of the listed lengths with operands at independent slice offsets (16 x 16), through | and & on slices (both orders) and bit_or/bit_and on fresh and offset-copied owned operands; contains for all pairs at length 1, all 65536 pairs of pairs at length 2, one-position families at longer lengths and all receivers, every length mismatch up to 5; symbol-level from(Dna) and complement. A case is one (length, offset pair) block",
    "bound": {"quick": "n in {1,2,3,15,16,17} for | and &, {1,2,3,15,16,17,33} for contains; 16x16 offsets", "thorough": "n up to 48 for | and &"},
    "assumptions": COMMON_ASSUME + ["IUPAC letters denote the nucleotide sets of the IUPAC nomenclature table typed in bsv/src/spec.rs", SEP],
    "technique": "bounded-exhaustive enumeration of symbol pairs x positions x independent bit offsets on the real bitwise operators against set union/intersection/subset",
    "level_text": "Every pair of IUPAC symbols at every position and every pair of operand alignments is executed through all forms of the operators and compared with set algebra on the nomenclature table; contains is decided exhaustively for lengths 1 and 2 and by one-position families beyond.",
    "level_note": "Longer sequences are covered by separability only.",
}

PROPS["C19"] = {
    "parts": [{"kind": "bin", "bin": "c19"}],
    "rule": "E2: conversions of every DNA sequence up to 4^n contents, every length 0..66 at every offset, static arrays; all 256 text patterns -> dna; trimming of every string of length <= l over {2 accepted, 2 rejected} bytes and of every bad^i good^j bad^k good^l bad^m with run lengths in {0,1,2,spw-1,spw,spw+1}, all 7 codecs",
    "bound": {"quick": "DNA contents n<=7; trim mixes l<=6; 6^5 run shapes per codec", "thorough": "DNA contents n<=10 and P(n) per shape; trim mixes l<=8 with 3 byte choices"},
    "assumptions": COMMON_ASSUME + ["accepted bytes per codec as typed in bsv/src/spec.rs", SEP],
    "technique": "bounded-exhaustive enumeration of inputs on the real conversion/trimming code against a table oracle and a differential oracle (strict parse of the span)",
    "level_text": "Every conversion entry point is run on every DNA content/shape in the bound and compared by letters; trimming is run on every accepted/rejected mix up to the length bound and on every run-shape crossing word boundaries, against both the table oracle and the strict parser applied to the span.",
    "level_note": "Trusts the spec table for what counts as an acceptable byte.",
}

PROPS["C20"] = {
    "parts": [{"kind": "bin", "bin": "c20", "runs": [["--opt", "first=builtin"], ["--opt", "first=custom"]]}],
    "rule": "E2: all symbols of both masked codecs (complete) through mask/unmask and their laws; every sequence up to |alphabet|^n <= bound; P(n) at every length 0..2*spw+2 (thorough 4*spw+2) and every slice offset (5-bit: all 64 offsets, so every straddling position is hit by every symbol), through to_mask/to_unmask, in-place forms on fresh and offset-copied clones, twice, unmask∘mask, commutation with rev/comp/revcomp",
    "bound": {"quick": "|alphabet|^n <= 4e4; lengths 0..2*spw+2 x all offsets x P(n)", "thorough": "|alphabet|^n <= 1.2e6; lengths 0..4*spw+2"},
    "assumptions": COMMON_ASSUME + ["upper/lower twins as typed in bsv/src/spec.rs; '?' and '!' of the 4-bit codec are left open by the property", SEP],
    "technique": "complete enumeration of symbols plus bounded-exhaustive enumeration of sequences x bit offsets on the real masking code against case-twin tables",
    "level_text": "The symbol-level clause is decided completely (all symbols, all laws); the sequence-level clause for every symbol at every position of every length up to two words at every bit offset, including all 5-bit symbols straddling a word boundary.",
    "level_note": "Trusts the twin table; longer sequences by separability.",
}

PROPS["C06"] = {
    "parts": [{"kind": "bin", "bin": "c06"}],
    "exhaustive_flags": ["fixpoint: frontier emptied under the length horizon", "no state cap hit"],
    "rule": "E1 explicit-state model checking: breadth-first search whose transition function applies the real edit (push, extend x2, append, prepend, insert at every position, remove in 11 RangeBounds forms for every in-bounds (a,b), truncate to every n, clear) to a clone of the real Seq and the same edit to a Vec model; states deduplicated on (symbols, raw words, internal head); invariant and witnesses checked after every transition. Three explorations per codec: fixpoint under a length horizon from 3 seed sets, bounded depth from seeds of every word-boundary length (plain and offset-copied), and a stateless (no deduplication) run",
    "bound": {"quick": "fixpoint: length horizon 5, 2 pushed symbols, 9 argument windows over a 4-symbol donor; boundary: depth 2 from every WB(2 words) length x {plain, offset-copied}, arguments at ends/word boundaries; stateless depth 2",
              "thorough": "fixpoint: length horizon 6 from 3 seed sets and 7 from the empty sequence, 3 pushed symbols; boundary: depth 2 from WB(3 words), depth 3 from the exact word-boundary seeds; stateless depth 3"},
    "assumptions": COMMON_ASSUME + ["state merging: every bitvec operation used by the edit methods is a function of (head, length, live bits, and at most the raw words); the key includes all of these, and the stateless run repeats the alphabet without merging",
        "edit arguments are in bounds (the property excludes out-of-range positions)", "capacity is not observed"],
    "technique": "explicit-state model checking (BFS with canonical state keys and parent pointers) of the real Seq edit operations against a Vec reference model; every explored trace is executed on the implementation",
    "level_text": "Every state reachable under the length horizon and every transition out of it is executed on the real Seq and compared with the list model (length, every symbol, display, iteration, equality and hash stream against a fresh sequence; source value, earlier slice copy and argument unchanged). Fixpoint (empty frontier) is reported per run; histories crossing word boundaries are covered to depth 2-3 from every word-boundary length.",
    "level_note": "Histories deeper than the stated depth from boundary seeds, sequences longer than 3 words and capacity effects are outside the bound.",
}

PROPS["C04"] = {
    "parts": [{"kind": "bin", "bin": "c04"}],
    "rule": "E2 over k-mer types and producers: for every (codec, storage, K) in the tier's K set every content (all |alphabet|^K <= bound, else the P(K) family) through Kmer::try_from(&slice).bs at slice offsets, usize::try_from(&slice), u8::from(&slice), usize::from(Seq) fresh and offset-copied, usize::from(&Kmer), Kmer::from(int)/from(usize) and display; refusal of slices of fit+1, fit+2, 2fit, 2fit+1 symbols at every offset; for every word-boundary length every producer of an owned sequence (bsv/src/producers.rs, ~60 producers incl. edit histories) -> into_raw layout and from_raw for every count 0..=capacity+2; the README table literally",
    "bound": {"quick": "every K that fits (634 k-mer types); all contents when |alphabet|^K <= 65536; lengths WB(2 words)+{4,5,7}+long lengths (4, 8 words +-1, 16 words+3); 4 copy offsets",
              "thorough": "every K that fits (634 k-mer types); all contents when |alphabet|^K <= 2^20; WB(3 words); every copy offset; 2 patterns"},
    "assumptions": COMMON_ASSUME + [SEP, "integer conversion is exercised on non-empty values only (the property says non-empty)", "bits of the word image beyond the sequence length are unspecified and not compared",
        "symbol codes are the codec's own to_bits() (C05 decides the tables)"],
    "technique": "bounded-exhaustive enumeration of contents x k-mer types x bit offsets and of producers x lengths x symbol counts on the real conversion code against integer packing (sum code_i * 2^(i*BITS))",
    "level_text": "Every k-mer type in the K set, with all contents where the content space is small and every-symbol-at-every-position families otherwise, is converted to and from integers by the real code at every slice offset and compared with the packing formula; every producer of an owned sequence is checked for the bit-0 word image and from_raw is called with every symbol count, at every word-boundary length.",
    "level_note": "Full 64/128-bit content spaces are covered by pattern families only; producers are a finite hand-listed set (plus C06's explorer for edit semantics).",
}

PROPS["C02"] = {
    "parts": [{"kind": "bin", "bin": "c02"}],
    "rule": "E2: pairs (X, Y) with Y in {equal, one symbol changed at every position, proper prefix, proper suffix, one symbol longer (back/front), empty}; X at slice offset s1 and Y at s2 (independent offsets); every realisation of each side (fresh Seq, Seq with non-zero head, &Seq, SeqSlice, &SeqSlice, SeqArray, Kmer over usize/u64/u128 when the length is a fitting K, &str); every PartialEq impl in both operand orders and != ; recorded hasher streams compared across all realisations of equal content; HashMap<Seq,_>::get(&SeqSlice) and HashSet<Seq> membership. A case is one (codec, length, s1, s2)",
    "bound": {"quick": "lengths 0..4 + WB(2 words) + a reduced K set at offset pairs with s1 or s2 in {0,1,noff/2+1,noff-1} or s1==s2; every other fitting K (up to 128) and the long lengths (4, 8 words +-1, 16 words+3) at 4-5 offset pairs; 14 array lengths",
              "thorough": "lengths 0..4 + WB(2 words) + every fitting K (up to 128); all noff x noff offset pairs"},
    "assumptions": COMMON_ASSUME + [SEP, "hash streams are compared between representations, never with a constant, so a consistent change of the hashing scheme is not an alarm",
        "a difference only in which write_* call carries the same bytes is counted but not a violation"],
    "technique": "bounded-exhaustive enumeration of sequence pairs x independent bit offsets x representations on the real PartialEq/Hash impls against list equality, with a recording Hasher",
    "level_text": "Every PartialEq impl is executed in both directions on every pair shape (equal / one symbol anywhere / prefix / suffix / empty) at every combination of slice alignments in the bound, and every representation of equal content must feed an identical byte stream to a recording hasher; k-mers of every K in the set over all three storages are included.",
    "level_note": "Lengths beyond two words (other than fitting K values) are not enumerated.",
}

PROPS["C08"] = {
    "parts": [{"kind": "bin", "bin": "c08"}],
    "rule": "E2 over k-mer types: for every (codec, storage, K) in the tier's K set all contents (|alphabet|^K <= 4096) or the P(K) family through try_from(&slice), unsafe_from_seqslice, from_str, Display, len, Deref, AsRef, Seq::from, == &str, TryFrom<Seq>; wrong lengths {0,K-1,K+1,K+2,2K,K+spw} and invalid text must be errors; for usize-backed types kmers::<K>() against the model windows and against windows(K) for sequences of length {0,K-1,K,K+1,K+2,K+spw+1,2K+1} at slice offsets (plain and headed parents), plus the iterator protocol of KmerIter",
    "bound": {"quick": "every K that fits (634 types); 9 of noff offsets for iteration", "thorough": "every K that fits (634 types); all offsets"},
    "assumptions": COMMON_ASSUME + [SEP, "kmer! literals are decided with the other literal macros in C16"],
    "technique": "bounded-exhaustive enumeration of k-mer types x contents x lengths x bit offsets on the real constructors and KmerIter against list windows; iterator protocol exploration",
    "level_text": "Each k-mer type in the K set is built from every content in the bound through every constructor and read back through every accessor; every wrong length and invalid text must be refused; KmerIter is compared item by item with the model windows and with windows(K) at every offset and driven through every next/nth/consumer sequence up to depth 2.",
    "level_note": "Both tiers reach all 634 k-mer types; thorough adds all slice offsets for iteration.",
}

PROPS["C09"] = {
    "parts": [{"kind": "bin", "bin": "c09"}],
    "exhaustive_flags": ["graph: every k-mer of the type was reached and expanded"],
    "rule": "E1 explicit-state: for every k-mer type with |alphabet|^K <= bound the state graph of ALL k-mers under rotated_left(1), rotated_right(1), pushl(x), pushr(x) for every symbol, to_rev/rev (usize-backed) and comp/revcomp (2-bit DNA) is explored completely by BFS, every transition compared with the list model and checked for canonical form; E2: for every type in the K set the P(K) family x rotation counts (0..2K+1, multiples of K, 65535..65537, 2^31, u32::MAX-K..u32::MAX) x pushes x unary ops, depth-2 chains, revcomp involution and canonical min(k, revcomp k)",
    "bound": {"quick": "graphs with |alphabet|^K <= 256; family over every K", "thorough": "graphs with |alphabet|^K <= 4096; family over every K"},
    "assumptions": COMMON_ASSUME + [SEP, "complement oracle = the codec's symbol-level complement"],
    "technique": "explicit-state model checking of the complete k-mer state graph for small K (every state, every transition) plus bounded-exhaustive families for large K, against list operations packed little-endian",
    "level_text": "For small K every k-mer of the type and every operation out of it is executed on the real code (complete graph, fixpoint reported); for large K every symbol at every position with every rotation count class and every pushed symbol, with depth-2 chains. Every result is compared with the same operation on the symbol list and must stay below 2^(K*BITS).",
    "level_note": "Full 64/128-bit k-mer contents are covered by pattern families only.",
}

PROPS["C10"] = {
    "parts": [{"kind": "bin", "bin": "c10"}],
    "rule": "E2 over orderable codecs (those whose symbol type is Ord: dna, text, masked dna, masked iupac, degenerate): all pairs of k-mers for every type with |alphabet|^K <= bound (cmp, partial_cmp, <, <=, >, >=, ==, != against integer order and the colexicographic model; all triples when the type has <= 64 values); for every type in the K set pairs differing in exactly one position (every position, every symbol pair) with all lower positions ordered the opposite way; min/max/sort of the k-mers of sequences; all pairs of equal-length owned sequences up to 256 sequences per length and one-position pairs at every word-boundary length, fresh and headed",
    "bound": {"quick": "all pairs for |alphabet|^K <= 256; one-position families for every K; WB(2 words) + 4 long lengths for owned sequences", "thorough": "all pairs for |alphabet|^K <= 1024; every K; WB(3 words)"},
    "assumptions": COMMON_ASSUME + [SEP, "codecs whose symbols are not Ord (iupac::Iupac, amino::Amino) have no Kmer/Seq ordering at all (a compile error, not a wrong answer), so 'every codec' means the five orderable ones",
        "owned sequences of different lengths are outside the property"],
    "technique": "exhaustive enumeration of all pairs/triples of small k-mer types and bounded-exhaustive one-position families on the real Ord/PartialOrd impls against integer and colexicographic order",
    "level_text": "For small k-mer types every ordered pair (and triple) is compared by the real Ord and must equal both the numeric order of the packed integers and the model's last-symbol-first comparison; for large K and for owned sequences up to 3 words, the pairs that separate colexicographic from any first-symbol-first order are enumerated at every position.",
    "level_note": "Pairs of long k-mers differing in several positions are covered by transitivity plus one-position families only.",
}

PROPS["C18"] = {
    "parts": [{"kind": "bin", "bin": "c18"}],
    "rule": "E2: for all 7 codecs and every word-boundary length, every producer of an owned sequence (bsv/src/producers.rs: parsed, collected, copies of offset slices, rev/comp/mask and bitwise results, edit histories leaving dead bits / kept allocations, empty values with a history, with_capacity) plus values deserialized with every chosen non-zero head and set dead bits, through bincode and serde_json; for every k-mer type in the K set all contents (<= 4096) or the P(K) family through both formats",
    "bound": {"quick": "WB(2 words)+{4,5,7}+long lengths; 4 copy offsets; 11 heads; every K", "thorough": "WB(3 words); every copy offset; all 63 heads; every K (634 types)"},
    "assumptions": COMMON_ASSUME + [SEP, "bincode 1.3 and serde_json as pinned are part of the environment, not of the subject"],
    "technique": "bounded-exhaustive enumeration of owned-sequence histories x lengths and of k-mer types x contents on the real Serialize/Deserialize impls, with a differential oracle from the deserialized (non-initial) state",
    "level_text": "Every way of producing an owned sequence that the harness knows (about 70 producers, including non-zero heads and dead bits) at every word-boundary length, and every k-mer type in the K set, is serialized and deserialized by the real impls in both formats; the result must equal the original, hash and display alike, and behave alike under further edits.",
    "level_note": "Producers are a finite hand-listed set; other serde formats are not covered.",
}

PROPS["C15"] = {
    "parts": [{"kind": "bin", "bin": "c15"}],
    "exhaustive_flags": ["all n! source-map iteration orders were driven through from_map for every map"],
    "rule": "E1 over construction orders + E2 over queries: every partial map from a universe of 6 codons (lengths 1..4) to 3 amino symbols (4^6 assignments, DNA and IUPAC codons) with at most max_entries entries; for each map the source HashMap is rebuilt with fresh RandomStates until every one of its n! iteration orders has been observed (before the call) and passed through CodonTable::from_map; each constructed table is queried with every universe codon and 7 non-key codons as slices at every offset, and with every amino of the universe. States = (map, order) pairs; a transition = one from_map construction",
    "bound": {"quick": "maps with <= 5 entries (all 120 orders each)", "thorough": "all 4096 maps (<= 6 entries, all 720 orders each)"},
    "assumptions": COMMON_ASSUME + ["iterating an unmodified HashMap twice yields the same order (std guarantee), so the order read before from_map is the order from_map sees",
        "construction from arrays cannot expose its order and is labelled supplementary repetition", "error payloads are not compared, only the error kind"],
    "technique": "exhaustive enumeration of the one nondeterministic environment answer (hash-map iteration order: all n! orders per map) and of all small maps on the real CodonTable, against the map itself as oracle",
    "level_text": "Every partial map in the universe and every iteration order of its source HashMap is driven through the real from_map; forward lookups (keys and non-keys at every slice offset) and reverse lookups (0, 1, 2, 3+ preimages) are compared with the map itself, so independence of iteration order is decided exhaustively within the universe.",
    "level_note": "Universe of 6 codons / 3 aminos; larger maps behave the same by symmetry of the bookkeeping but are not enumerated.",
}

PROPS["C16"] = {
    "engine": "progs",
    "parts": [{"kind": "py", "module": "c16"}, {"kind": "bin", "bin": "p16", "optional": True}],
    "rule": "E3: generated programs in which every literal is a separate expansion of the real dna!/iupac!/kmer! macros, compiled against the working tree; positive literals (every dna literal up to length 4/5, every iupac literal up to length 1/2, every symbol at chosen/every position for word-boundary lengths up to 200, kmer! for K up to 32 on usize/u64 and up to 64 on u128) are run and compared with Seq::try_from(text) for length, symbols, ==, hasher input and display; negative literals (one offending character of each class at first/middle/last or every position) are interleaved line by line with valid ones and cargo check --message-format=json must put an error on exactly the offending lines. E4: dna_seq / iupac_seq of bio-seq-derive driven directly over every string up to a length bound (alphabet + offending characters) against the runtime parser's packed bits",
    "bound": {"quick": "about 1100 positive expansions, 470 negative lines; E4: every string of length <= 5 (dna, 10 characters) / <= 3 (iupac, 21 characters)",
              "thorough": "about 6000 positive expansions (every symbol at every position of every listed length), 2500 negative lines; E4: length <= 7 / <= 4"},
    "assumptions": COMMON_ASSUME + ["rustc and cargo as installed; error text is not compared, only which lines carry an error", "iupac!'s acceptance of 'X' as an alias of '-' is not compared with the runtime parser",
        "literals longer than 200 symbols and non-literal macro arguments are outside the grammar"],
    "technique": "bounded-exhaustive enumeration of programs: generated sources compiled with the real macros and executed (positive) or checked for per-line compile errors (negative), plus exhaustive enumeration of the macro's internal encoders",
    "level_text": "Each literal in the bounded grammar is really expanded by the real proc-macro inside the real compiler and the resulting static value is compared with the runtime parser at run time; each offending literal must fail to compile on its own line while the interleaved valid ones compile. The encoder functions are additionally enumerated exhaustively for all short strings.",
    "level_note": "A bounded grammar of literals, not all programs; the probe (E4) depends on the internal names dna_seq/iupac_seq and is skipped (never an alarm) if they disappear.",
}

PROPS["C17"] = {
    "engine": "progs",
    "parts": [{"kind": "py", "module": "c17"}, {"kind": "bin", "bin": "p17", "optional": True}],
    "rule": "E3: enum declarations generated from a bounded grammar (G1 {A=0,Z=m} for every m without a width; G2 declared widths from minimal to 8 at power-of-two edges; G3 every literal form (decimal, 0b, 0x, 0o, suffix, underscores, byte) x values; G4 placements of 0..2 alternatives over a 3-bit code space for 2-3 variants with default/punctuation/digit/lower-case display; G5 2..40 variants; G6 derived codecs of widths 1,3,5,7,8 through generic sequence laws) are compiled with the real #[derive(Codec)] in the dev and the release profile; every generated module checks BITS, items(), to_bits, to_char and all 256 bytes through try_from_bits/unsafe_from_bits/try_from_ascii/unsafe_from_ascii against tables computed by the generator from the declaration; 17 malformed declarations interleaved with valid controls must each fail to compile on their own lines. E4: parse_width for every max discriminant 1..=255 x {no #[bits], #[bits(1..=8)]} and parse_variants for 255 x 4 literal forms, driven directly in both harness profiles",
    "bound": {"quick": "about 210 declarations x 2 profiles, 17 rejections x 2 profiles; E4 complete (2295 + 1020 cases x 2 profiles)", "thorough": "about 1540 declarations x 2 profiles (every m in G1, every width in G2, every primary-code permutation in G4)"},
    "assumptions": COMMON_ASSUME + ["expected tables are computed by the python generator from the declaration text, independently of the derive", "rustc/cargo as installed; error text is not compared",
        "the proc-macro is built with overflow checks in the dev profile and without in the release profile (cargo defaults), which is why both are run"],
    "technique": "bounded-exhaustive enumeration of programs: declarations from a grammar compiled with the real derive in two build profiles and executed against generator-computed tables, plus exhaustive enumeration of the derive's width computation",
    "level_text": "Every declaration of the bounded grammar is really expanded by the real derive inside the real compiler, in both build profiles, and its four decoders are checked on all 256 byte values against independently computed tables; the width rule is additionally decided for every maximum discriminant and every declared width by driving parse_width directly.",
    "level_note": "A bounded grammar of declarations, not all enums; the probe (E4) depends on the internal names parse_width/parse_variants and is skipped (never an alarm) if they disappear.",
}

# every sequence-level check also runs the lengths beyond the small-scope bound (DESIGN.md C4b)
LONG_NOTE = ("; plus, with one pattern per length and positional arguments restricted to ends / word boundaries: long lengths (4 and 8 machine words +-1, 16 words + 3) "
             "and huge lengths (64, 65, 128 words +-1; 4096 and 8192 symbols +-1; every integer constant of the subject's non-test sources read as symbols, bytes, bits or words, +-1; up to 70000 symbols)")
for _pid in ["C01", "C02", "C03", "C04", "C06", "C07", "C08", "C10", "C11", "C12", "C13", "C18", "C19", "C20"]:
    _b = PROPS[_pid]["bound"]
    PROPS[_pid]["bound"] = {k: v + LONG_NOTE for k, v in _b.items()} if isinstance(_b, dict) else _b + LONG_NOTE
PROPS["C03"]["rule"] += "; positions whose bit offset does not fit a machine word (usize::MAX, usize::MAX/BITS (+1,+2), 1<<61..1<<63) through get, nth, [i] and every range form"
PROPS["C06"]["rule"] += "; extend / Extend::extend / collect-then-append through iterators reporting inexact size hints (6 (lower, upper, actual) combinations)"
PROPS["C18"]["rule"] += "; each value also through serialize_into/deserialize_from over an io::Read handing out one byte per call, to_writer/from_reader and to_value/from_value"
PROPS["C19"]["rule"] += "; every well-formed 2-byte UTF-8 sequence (and a family of 3/4-byte ones) before, after and inside an acceptable run"
PROPS["C05"]["rule"] += "; symbol-level Display (where the codec has one) and u8::from(symbol) against to_char / to_bits"
PROPS["C17"]["rule"] += "; G7: doc comments and unrelated attributes on the enum and its variants; G4 varies how alternatives are spread over #[alt] attributes"
PROPS["C16"]["rule"] += "; kmer!(lit, storage) forms in the negatives; dna!/iupac! literals beyond 64 machine words (2049, 2100 / 1025, 1100 symbols)"
PROPS["C08"]["rule"] += "; iterator protocol exploration of KmerIter (every {next, nth(k)} sequence up to depth 2 followed by every terminal consumer)"
PROPS["C11"]["rule"] += "; iterator protocol exploration: every {next, nth(0), nth(1), nth(2), nth(n+1)} sequence up to depth 3/4 followed by each of {drain, count, last, size_hint, fold, skip(1), step_by(2), skip(2).nth(1)} on fresh iterators against the model list"

PROPS["C02"]["rule"] += "; Alias: every pair of windows of ONE parent buffer (equal length and +-1, plain and headed) through the slice comparisons, == &str and the hasher; containers (Vec<Seq>, Vec<&SeqSlice>, tuples, [Kmer]) hash alike (Hash::hash_slice); Borrow/AsRef/Deref agree"
PROPS["C12"]["rule"] += "; ContainsAlias: every pair of windows of one buffer incl. prefixes and empty slices"
PROPS["C06"]["rule"] += "; clone_from into an empty, a shorter and a longer target"
PROPS["C07"]["rule"] += "; AltCodes: sequences built with from_raw over every decodable code (canonical or documented alternative) at every position, for every codec that has alternatives"
PROPS["C10"]["rule"] += "; Ord::max/min/clamp; order consistent with equality also on storage values with bits above the K symbols"
PROPS["C14"]["rule"] += "; every codon length 0..=300 except 3"
PROPS["C01"]["rule"] += "; String::from / format! forms incl. width, fill and alignment flags; collect/extend through iterators with inexact size hints"
PROPS["C04"]["rule"] += "; producers include owned sequences collected from windows(n)/chunks(n), From<&BitSlice>/From<BitVec>, and Seq::<text::Dna>::from(Vec<usize>)"

PROPS["C02"]["assumptions"] = [a for a in PROPS["C02"]["assumptions"] if "write_*" not in a] + ["equal content must reach the Hasher as the same sequence of write_* calls with the same bytes (std's Hash/Borrow contract is about any Hasher); the scheme itself is free"]
PROPS["C07"]["rule"] += "; all forms of an operation are compared with each other and with a freshly built expected sequence through the real == and the hasher stream, not only by decoded symbols"
PROPS["C08"]["rule"] += "; K valid symbols with leading/trailing line ends, blanks or NUL must not parse"
PROPS["C11"]["rule"] += "; windows/chunks of a width near usize::MAX polled repeatedly"
PROPS["C15"]["rule"] += "; array inputs listing a codon twice"
PROPS["C05"]["rule"] += "; symbol-level conversions text->dna (all 256 bytes), dna->text, dna->iupac"

# round 5
PROPS["C01"]["rule"] += "; two harness-defined derived codecs (2-bit with a non-inverting complement, 3-bit with alternatives) beside the seven built-in ones; Interleave: every ordered pair of codecs used a,b,a,b on one thread through every entry point; Display into a sink that fails part-way, then Display again"
PROPS["C06"]["rule"] += "; the two harness-defined derived codecs go through the same exploration"
PROPS["C07"]["rule"] += "; the two harness-defined derived codecs (their complement is neither a bit inversion nor a reversal) go through the same cases"
PROPS["C08"]["rule"] += "; Interleave: every ordered pair of 28 k-mer types (codec x storage x K) used a,b,a,b on one thread through from_str and Display; Display into a failing sink, then Display again"
PROPS["C02"]["rule"] += "; a text of the same length containing a byte that is not a symbol character never compares equal (sequences and k-mers)"
PROPS["C11"]["rule"] += "; terminals also for_each, collect, find, position, all, by_ref().take(1) then drain, each on the real iterator after every advance sequence"
PROPS["C17"]["rule"] += "; G8: variant names of other shapes (lower-case incl. names starting with r, one-letter, digits/underscores, shared prefixes, long names)"
PROPS["C18"]["rule"] += "; composition in a stream: (Seq, u32) tuples, Vec<Seq>, two values written back to back and read sequentially, deserialisation consumes exactly serialized_size bytes, JSON tuples"
PROPS["C20"]["rule"] += "; Foreign: two harness-defined maskable codecs of the built-in widths (4, 5 bits) with different masking, used before and after the built-in ones in one process; the binary runs once per first-touch order (custom first / built-in first)"
PROPS["C04"]["rule"] += "; the infallible conversions usize::from(Seq) / u8::from(&SeqSlice) of more bits than the integer has must not return a value"
PROPS["C15"]["rule"] += "; Many: one amino acid with 255..258, 511..513, 65535..65537 codons (lengths 1..4), one with exactly one, one with two, three constructions each"

# round 7
PROPS["C16"]["rule"] += "; every positive and negative family also in Rust's other spellings of the same string value (raw strings r\"..\" and r##\"..\"##, \\x.. and \\u{..} escapes, mixtures)"
PROPS["C17"]["rule"] += "; kmer_laws: the derived codecs of the laws set through text -> k-mer -> text, try_from(&slice), == &str, Seq::from(kmer), u64/u128 storages and kmers::<K>() for K in {1,2,3,fit-1,fit}; G9: codecs without a zero code (2, 3, 8 bits)"

# round 8
PROPS["C01"]["rule"] += "; Utf8Mix: an ASCII rejected byte and a multi-byte UTF-8 character (or two different ones) at every position pair, both orders, text entry points against the byte entry point"
PROPS["C02"]["rule"] += "; variants flipping the same bit pattern in several machine words at once (every symbol; one symbol per word in all/two/three/alternate words); containers use a fixed-key hasher state"
PROPS["C12"]["rule"] += "; ContainsMulti: operands of 2-5 machine words with the same (pattern, argument) symbol pair at one position of two, three, alternate or all words, or at every position"

# round 9
PROPS["C18"]["rule"] += "; reading INTO an existing value (Deserialize::deserialize_in_place through bincode and serde_json, for a Seq and for a Vec<Seq> whose elements are reused) over six target forms (empty, the same value, half, two longer, one symbol, n+70 symbols)"
PROPS["C14"]["rule"] += "; depth-2 call sequences: each of the 16^3 codons as a priming call followed by every member of a family of related second queries (prefix, suffix, reversed, doubled, gap-padded at the front / back by 1,2,3,5,13,14, every single-position substitution) written into the same storage (a reused scratch buffer; the same position of a rewritten parent)"
PROPS["C13"]["rule"] += "; sequences of 2^16+2..5 and 3*2^16+2..6 bases (window / chunk counts just past a 16-bit counter)"
PROPS["C11"]["rule"] += "; lengths 2^16+3 and 3*2^16+5 (2-bit and 6-bit codecs)"
