"""Property table for the driver: which engine parts decide each property, the
enumeration rule, the bound per tier and the assumptions (trusted base)."""

COMMON_ASSUME = [
    "x86_64 Linux, 64-bit usize, rustc on PATH; other targets (32-bit, wasm) are not covered",
    "bitvec 1.0.1 as pinned by Cargo.lock is part of the implementation under test, not of the oracle",
    "the reference model (lists of symbols, integers, hand-typed tables in bsv/src/spec.rs and bsv/src/model.rs) is correct; spec::self_test cross-checks the tables",
    "both harness profiles are run: release (debug-assertions off) and relassert (release + debug-assertions + overflow-checks)",
]

PROPS = {}
# properties not claimed yet, with the reason shown in MANIFEST.not_applicable
PENDING = {}

PROPS["C05"] = {
    "parts": [{"kind": "bin", "bin": "c05"}],
    "exhaustive": True,
    "rule": "complete enumeration of a finite domain: one case per (codec, byte value) running all four decoders, one per (codec, symbol of items()) running every per-symbol law, one per codec for the alphabet laws; a case is distinct by its (codec, byte|symbol) coordinates",
    "bound": "none needed: 7 codecs x 256 byte values x 4 decoders + every symbol, complete",
    "assumptions": COMMON_ASSUME + [
        "the documented alphabets are as typed in bsv/src/spec.rs (README, codec module docs, IUPAC nomenclature, NCBI table 1)",
    ],
    "technique": "complete enumeration of a finite domain on the real code (stateless exhaustive exploration) against hand-typed spec tables",
    "level_text": "The whole domain of the property (7 codecs x 256 byte values x 4 decoders, every symbol x every table law, both build profiles) is enumerated completely on the real code and compared with hand-typed tables; within the stated target this is a complete decision, not a sample.",
    "level_note": "Trusts the hand-typed spec tables (self-tested against each other) and that debug-assertions on/off are the only build-profile coordinates that matter.",
}
