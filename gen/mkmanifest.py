#!/usr/bin/env python3
"""Regenerate /verif/MANIFEST.json from gen/props.py (run after editing the property table)."""
import json, os, sys
ROOT = os.path.dirname(os.path.dirname(os.path.abspath(__file__)))
sys.path.insert(0, os.path.join(ROOT, "gen"))
from props import PROPS, PENDING

ids = [json.loads(l)["id"] for l in open(os.path.join(ROOT, "properties.jsonl"))]
checks = []
for pid in ids:
    if pid not in PROPS:
        continue
    P = PROPS[pid]
    checks.append({
        "property_id": pid,
        "quick_cmd": f"./check {pid} quick",
        "thorough_cmd": f"./check {pid} thorough",
        "evidence_file": f"/verif/evidence/{pid}.json",
        "replay_cmd_template": "./check replay {path}",
        "engine": P.get("engine", "bsv"),
        "level_claimed": {
            "category": "model_checking",
            "text": P["level_text"],
            "design_ref": f"DESIGN.md section 4, {pid}",
        },
        "level_note": P["level_note"],
        "technique": P["technique"],
    })
na = [{"property_id": pid, "reason": PENDING.get(pid, "check not built yet")} for pid in ids if pid not in PROPS]
man = {
    "version": 1,
    "setup_cmd": "./setup.sh",
    "hooks": {
        "guard": "none",
        "enable": "no hooks: every observation (including the internal head offset of an owned sequence, via bitvec's public serde form) is reachable through the public API with features translation,extra_codecs,serde",
        "baseline_off_cmd": "cd /repo && cargo test --workspace --no-fail-fast --offline",
        "source_commits": [],
        "add_only": True,
    },
    "engines": [
        {"name": "bsv", "path": "/verif/harness/bsv", "serves_properties": [c["property_id"] for c in checks if c["engine"] == "bsv"],
         "kind_free_text": "hand-written bounded-exhaustive explorer of the real bio-seq code (Rust): E1 explicit-state BFS with canonical keys and parent pointers, E2 exhaustive input enumerators; reference model = symbol lists, integers, hand-typed tables; two build profiles"},
        {"name": "progs", "path": "/verif/gen", "serves_properties": [c["property_id"] for c in checks if c["engine"] == "progs"],
         "kind_free_text": "E3 program generator (python -> Rust sources compiled against /repo with the real macros/derive, run and diffed against generator-computed tables) plus E4 probe of bio-seq-derive internals"},
    ],
    "checks": checks,
    "not_applicable": na,
    "notes": "All checks rebuild from /repo's working tree through cargo path dependencies. Known findings: /verif/known_findings.json. See DESIGN.md.",
}
json.dump(man, open(os.path.join(ROOT, "MANIFEST.json"), "w"), indent=1)
print(f"MANIFEST.json: {len(checks)} checks, {len(na)} not_applicable")
