"""E3 - program generator infrastructure: scratch cargo projects that depend on /repo by path, so the
real macros / derive are expanded by the real compiler against the current working tree."""
import json
import os
import shutil
import subprocess
import time

FEATURES = '["translation", "extra_codecs", "serde"]'


def project(root, name):
    d = os.path.join(root, "work", "progs", name)
    if os.path.exists(d):
        shutil.rmtree(d)
    os.makedirs(os.path.join(d, "src", "bin"))
    os.makedirs(os.path.join(d, ".cargo"))
    with open(os.path.join(d, "Cargo.toml"), "w") as f:
        f.write(f"""[package]
name = "{name}"
version = "0.0.0"
edition = "2021"
publish = false

[workspace]

[dependencies]
bio-seq = {{ path = "/repo/bio-seq", features = {FEATURES} }}
bio-seq-derive = {{ path = "/repo/bio-seq-derive" }}

[profile.dev]
debug = false
incremental = false

[profile.release]
opt-level = 0
debug = false
incremental = false
""")
    with open(os.path.join(d, ".cargo", "config.toml"), "w") as f:
        f.write("[net]\noffline = true\n")
    shutil.copy(os.path.join(root, "harness", "Cargo.lock"), os.path.join(d, "Cargo.lock"))
    return d


def _env(root, env):
    e = dict(env)
    e["CARGO_TARGET_DIR"] = os.path.join(root, "work", "progs", "target")
    e["CARGO_NET_OFFLINE"] = "true"
    return e


def write_bin(proj, name, src):
    with open(os.path.join(proj, "src", "bin", name + ".rs"), "w") as f:
        f.write(src)


def cargo(proj, root, env, args, timeout=3600):
    p = subprocess.run(["cargo"] + args, cwd=proj, env=_env(root, env), stdout=subprocess.PIPE, stderr=subprocess.PIPE, text=True, timeout=timeout)
    return p.returncode, p.stdout, p.stderr


def build_bins(proj, root, env, release=False):
    """Build every bin; returns (ok, diagnostics[list of compiler messages])."""
    args = ["build", "--offline", "--bins", "--message-format=json"]
    if release:
        args.append("--release")
    rc, out, err = cargo(proj, root, env, args)
    return rc == 0, parse_messages(out), err


def check_bin(proj, root, env, name, release=False):
    args = ["check", "--offline", "--bin", name, "--message-format=json"]
    if release:
        args.append("--release")
    rc, out, err = cargo(proj, root, env, args)
    return rc, parse_messages(out), err


def parse_messages(out):
    msgs = []
    for line in out.splitlines():
        if not line.startswith("{"):
            continue
        try:
            j = json.loads(line)
        except Exception:
            continue
        if j.get("reason") == "compiler-message":
            msgs.append(j)
    return msgs


def error_lines(msgs, file_suffix):
    """Lines of `file_suffix` that carry an error: the primary spans and every macro call site in
    their expansion chains. Returns {line: [messages]}."""
    res = {}
    for j in msgs:
        m = j["message"]
        if m.get("level") != "error":
            continue
        text = m.get("message", "")
        if text.startswith("aborting due to") or text.startswith("could not compile"):
            continue
        lines = set()

        def walk(span):
            if span is None:
                return
            if span.get("file_name", "").endswith(file_suffix):
                for ln in range(span["line_start"], span["line_end"] + 1):
                    lines.add(ln)
            exp = span.get("expansion")
            if exp:
                walk(exp.get("span"))

        for sp in m.get("spans", []):
            walk(sp)
        for ch in m.get("children", []):
            for sp in ch.get("spans", []):
                walk(sp)
        for ln in lines:
            res.setdefault(ln, []).append(text)
    return res


def run_exe(root, profile, name, timeout=600):
    exe = os.path.join(root, "work", "progs", "target", profile, name)
    p = subprocess.run([exe], stdout=subprocess.PIPE, stderr=subprocess.PIPE, text=True, timeout=timeout)
    return p.returncode, p.stdout, p.stderr


def rust_str(s):
    """A Rust string literal for the python str s (escapes control characters, keeps UTF-8)."""
    out = ['"']
    for ch in s:
        if ch == '"':
            out.append('\\"')
        elif ch == "\\":
            out.append("\\\\")
        elif ch == "\n":
            out.append("\\n")
        elif ch == "\t":
            out.append("\\t")
        elif ch == "\r":
            out.append("\\r")
        elif ord(ch) < 0x20 or ord(ch) == 0x7F:
            out.append("\\u{%x}" % ord(ch))
        else:
            out.append(ch)
    out.append('"')
    return "".join(out)


class Result:
    """Accumulates a result record in the same shape as the harness binaries produce."""

    def __init__(self, prop, part, profile, tier, seed, replay_module):
        self.t0 = time.time()
        self.r = {
            "property": prop, "tier": tier, "profile": profile, "seed": seed, "aborted": False,
            "cases": 0, "distinct_cases": 0, "checks": 0, "units": 0, "states": 0, "edges": 0,
            "distinct_outcomes": 0, "dims": {}, "counters": {}, "flags": {}, "samples": [], "violations": [],
            "extra": {}, "_part": part, "_profile": profile, "_replay": replay_module, "_replay_bin": None,
        }
        self._viol = {}
        self._outcomes = set()

    def case(self, sample=None):
        self.r["cases"] += 1
        self.r["distinct_cases"] += 1
        if sample is not None and len(self.r["samples"]) < 8:
            self.r["samples"].append(sample)

    def check(self, n=1):
        self.r["checks"] += n

    def outcome(self, o):
        self._outcomes.add(o)

    def count(self, k, n=1):
        self.r["counters"][k] = self.r["counters"].get(k, 0) + n

    def violation(self, sig, detail, case):
        v = self._viol.setdefault(sig, {"sig": sig, "count": 0, "examples": []})
        v["count"] += 1
        if len(v["examples"]) < 3:
            v["examples"].append({"idx": self.r["cases"], "detail": detail, "case": case})

    def done(self):
        self.r["violations"] = list(self._viol.values())
        self.r["distinct_outcomes"] = len(self._outcomes)
        self.r["wall_s"] = time.time() - self.t0
        return self.r
