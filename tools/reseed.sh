#!/bin/bash
# Re-run every kept seeded change against the current machinery and the current /repo HEAD:
# apply patch -> quick check(s) of its property -> expect VIOLATION (exit 1) -> revert.
# Writes /verif/notes/reseed-latest.txt.  Patches that no longer apply to HEAD are listed as such.
cd /verif
out=/verif/notes/reseed-latest.txt
: > $out
for d in seeded/*/; do
  n=$(basename $d)
  pid=$(python3 -c "import json;print(json.load(open('$d/meta.json')).get('property','${n%%-*}'))")
  cd /repo
  if ! git diff --quiet; then echo "repo dirty, abort" | tee -a $out; exit 2; fi
  patch=/verif/$d/patch.diff
  if ! git apply --check $patch 2>/dev/null; then
    # a later fix: commit may have touched the same lines; a re-based copy of the same change is kept next to it
    patch=$(ls /verif/$d/patch.rebased-*.diff 2>/dev/null | tail -1)
    if [ -z "$patch" ] || ! git apply --check $patch 2>/dev/null; then echo "$n $pid PATCH-DOES-NOT-APPLY-TO-HEAD" | tee -a $out; cd /verif; continue; fi
  fi
  git apply $patch
  cd /verif
  o=$(./check $pid quick 2>&1); rc=$?
  git -C /repo checkout -q -- . ; git -C /repo clean -fdq
  sig=$(echo "$o" | grep -E '^  signature' | head -1 | cut -c1-140)
  echo "$n $pid exit=$rc $sig" | tee -a $out
  rm -f /verif/replays/*.json
done
