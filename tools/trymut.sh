#!/bin/sh
# usage: tools/trymut.sh <file-in-repo> <sed-expr> <ID>...   apply a one-line mutation to /repo, run quick checks, revert.
f=$1; e=$2; shift 2
cd /repo || exit 2
git diff --quiet || { echo "repo dirty"; exit 2; }
sed -i "$e" "$f"
git diff --stat | tail -1
cd /verif
for id in "$@"; do ./check "$id" quick 2>&1 | grep -E 'VIOLATION|signature|HELD|VIOLATED|MACHINERY' | head -8; done
git -C /repo checkout -- . ; git -C /repo clean -fdq
rm -f /verif/replays/*.json
