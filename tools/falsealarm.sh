#!/bin/bash
# usage: tools/falsealarm.sh <dir-with-REFACTORn-subdirs>...  Apply each property-preserving refactor to /repo,
# run every quick check, expect exit 0 everywhere; log to /verif/notes/falsealarm-latest.txt
cd /verif
out=/verif/notes/falsealarm-latest.txt
: > $out
for base in "$@"; do
  base=$(readlink -f $base)
  for d in $base/REFACTOR*/ $base/; do [ -f $d/patch.diff ] || continue
    n=$(basename $base)-$(basename $d)
    cd /repo
    if ! git diff --quiet; then echo "repo dirty, abort" | tee -a $out; exit 2; fi
    if ! git apply --check $d/patch.diff 2>/dev/null; then echo "$n PATCH-DOES-NOT-APPLY" | tee -a $out; continue; fi
    git apply $d/patch.diff
    cd /verif
    line="$n:"
    for id in C01 C02 C03 C04 C05 C06 C07 C08 C09 C10 C11 C12 C13 C14 C15 C16 C17 C18 C19 C20; do
      o=$(./check $id quick 2>&1); rc=$?
      if [ $rc -ne 0 ]; then
        line="$line $id=$rc"
        echo "$n $id rc=$rc" >> $out
        echo "$o" | grep -E '^(VIOLATION|  signature|  detail|MACHINERY)' | head -12 | cut -c1-400 >> $out
      fi
    done
    git -C /repo checkout -q -- . ; git -C /repo clean -fdq
    rm -f /verif/replays/*.json
    echo "$line done" | tee -a $out
  done
done
