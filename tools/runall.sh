#!/bin/bash
# usage: tools/runall.sh <quick|thorough> [IDs...]  - run checks on the current tree, print a summary, validate evidence
tier=${1:-quick}; shift
ids=${@:-C01 C02 C03 C04 C05 C06 C07 C08 C09 C10 C11 C12 C13 C14 C15 C16 C17 C18 C19 C20}
cd /verif
for id in $ids; do
  s=$(date +%s)
  o=$(./check $id $tier 2>&1); rc=$?
  e=$(date +%s)
  echo "$id rc=$rc $((e-s))s :: $(echo "$o" | grep -E 'HELD|VIOLATED|MACHINERY' | tail -1 | cut -c1-200)"
  echo "$o" | grep -E '^(VIOLATION|KNOWN-FINDING)' | cut -c1-200
done
python3-vt - <<'PY'
import json,jsonschema,glob
sch=json.load(open('/root/.vp/EVIDENCE.schema.json'))
bad=0
for f in sorted(glob.glob('/verif/evidence/*.json')):
    try: jsonschema.validate(json.load(open(f)),sch)
    except Exception as e: bad+=1; print('INVALID',f,str(e)[:200])
print('evidence files valid' if not bad else f'{bad} invalid')
jsonschema.validate(json.load(open('/verif/MANIFEST.json')), json.load(open('/root/.vp/MANIFEST.schema.json'))); print('manifest valid')
PY
