#!/bin/bash
# usage: tools/seed.sh <worktree> <MUTATIONn> <seed-name> <property-ID> [more IDs...]
# Confirms an independently written mutation (suite passes with it, its demo fails with it and passes
# without it), then runs the named quick checks against it in /repo and records everything in
# /verif/seeded/<seed-name>/.
set -u
WT=$1; M=$2; NAME=$3; shift 3
export CARGO_NET_OFFLINE=true CARGO_TARGET_DIR=$WT/target
D=$WT/$M
OUT=/verif/seeded/$NAME
mkdir -p $OUT
cd $WT || exit 2
git checkout -q -- . ; rm -f bio-seq/tests/zz_demo.rs
git apply $D/patch.diff || { echo "patch does not apply in worktree"; exit 2; }
suite=$(cargo test --workspace --offline 2>&1 | grep -E '^test result|FAILED|failed' | tr '\n' ';')
suite_ok=true; echo "$suite" | grep -q -E 'FAILED|[1-9][0-9]* failed' && suite_ok=false
mkdir -p bio-seq/tests; cp $D/demo.rs bio-seq/tests/zz_demo.rs
demo_mut=$(cargo test --offline -p bio-seq --features translation,extra_codecs,serde --test zz_demo 2>&1 | grep -E '^test result|error' | head -3 | tr '\n' ';')
git checkout -q -- .
demo_clean=$(cargo test --offline -p bio-seq --features translation,extra_codecs,serde --test zz_demo 2>&1 | grep -E '^test result|error' | head -3 | tr '\n' ';')
rm -rf bio-seq/tests
echo "suite with mutation: $suite_ok  [$suite]"
echo "demo with mutation:  $demo_mut"
echo "demo without:        $demo_clean"
cd /repo; git diff --quiet || { echo "/repo dirty"; exit 2; }
git apply $D/patch.diff || { echo "patch does not apply to /repo"; exit 2; }
cd /verif
unset CARGO_TARGET_DIR
res="{"
for id in "$@"; do
  o=$(./check $id quick 2>&1); rc=$?; echo "$o" > /tmp/mut/last_check_$id.out
  sigs=$(echo "$o" | grep -E '^  signature' | sed 's/^  signature: //' | head -6 | tr '\n' '|')
  echo "check $id: exit=$rc  $sigs"
  res="$res\"$id\": {\"exit\": $rc, \"signatures\": \"$(echo $sigs | sed 's/"/\\"/g')\"},"
done
res="${res%,}}"
git -C /repo checkout -q -- . ; git -C /repo clean -fdq
rm -f /verif/replays/*.json
cp $D/patch.diff $D/demo.rs $OUT/
python3 - "$D/meta.json" "$OUT/meta.json" "$suite_ok" "$demo_mut" "$demo_clean" "$res" "$*" <<'PY'
import json,sys
src,dst,suite_ok,dm,dc,res,ids=sys.argv[1:8]
try: m=json.load(open(src))
except Exception as e: m={"note":"agent meta unreadable: %s"%e}
m["confirmed_by_us"]={"repo_suite_passes_with_mutation": suite_ok=="true","demo_with_mutation":dm,"demo_without_mutation":dc,
  "how":"tools/seed.sh: git apply in a scratch worktree, cargo test --workspace --offline, demo copied to bio-seq/tests and run with/without the patch; then git -C /repo apply, ./check <ID> quick, git -C /repo checkout -- ."}
m["checks_run"]=json.loads(res)
json.dump(m,open(dst,"w"),indent=1)
PY
