//! k-mer machinery.  `Kmer<C, K, S>` is a separate monomorphised type for every
//! (codec, K, storage); the checks reach all 634 fitting instantiations through
//! one object-safe API (`KmerApi<A>`), so that a check body is compiled once per
//! codec and only the thin adapter below is compiled once per k-mer type.
//! A k-mer is passed around as its raw storage value (`u128`).

use bsv::codecs::*;
use bsv::fixture::{array_of, read};
use bsv::rec::{self, Recorder};
use bio_seq::{Complement, ComplementMut, ReverseComplement, ReverseComplementMut};
use bio_seq::error::ParseBioError;
use bio_seq::kmer::{Kmer, KmerStorage};
use bio_seq::{Reverse, ReverseMut};
use serde::{Deserialize, Serialize};
use std::cmp::Ordering;
use std::fmt::Debug;
use std::hash::Hash;
use std::marker::PhantomData;
use std::str::FromStr;

#[derive(Serialize, Deserialize, Clone, Copy, Debug, Hash, PartialEq, Eq, PartialOrd, Ord)]
pub enum Sid {
    Usize,
    U64,
    U128,
}

impl Sid {
    pub const ALL: [Sid; 3] = [Sid::Usize, Sid::U64, Sid::U128];
    pub fn width(self) -> usize {
        match self {
            Sid::Usize | Sid::U64 => 64,
            Sid::U128 => 128,
        }
    }
    pub fn name(self) -> &'static str {
        match self {
            Sid::Usize => "usize",
            Sid::U64 => "u64",
            Sid::U128 => "u128",
        }
    }
}

/// Largest K that fits: K * BITS <= storage width.
pub fn max_k(cid: Cid, sid: Sid) -> usize {
    sid.width() / cid.bits()
}

/// K values of a tier.  Both tiers now instantiate every K that fits (all 634 k-mer types are
/// reached through the object-safe API at no extra compile cost); `reduced_k_set` is kept for the
/// places where the per-K work is heavy.
pub fn k_set(cid: Cid, sid: Sid, _thorough: bool) -> Vec<usize> {
    (1..=max_k(cid, sid)).collect()
}

/// {1,2,3,4, one mid value, fit-1, fit} (and, for 128-bit storage, the values around the 64-bit
/// word boundary)
pub fn reduced_k_set(cid: Cid, sid: Sid) -> Vec<usize> {
    let m = max_k(cid, sid);
    let mut v = vec![1, 2, 3, 4, m / 2, m.saturating_sub(1), m];
    if sid == Sid::U128 {
        let b = 64 / cid.bits();
        v.extend([b.saturating_sub(1), b, b + 1]);
    }
    v.retain(|&k| k >= 1 && k <= m);
    v.sort();
    v.dedup();
    v
}

/// Harness-side view of the three storage types.  The `w_*` hooks expose what the
/// crate offers for usize-backed k-mers only (Deref, AsRef, TryFrom<Seq>, == Seq,
/// == &str, Seq::from, usize::from, Reverse, KmerIter); they answer `None` elsewhere.
pub trait Store: KmerStorage + Copy + Eq + Ord + Hash + Debug + Send + Sync + Serialize + for<'de> Deserialize<'de> + 'static {
    const SID: Sid;
    const WIDTH: usize;
    fn to_u128(self) -> u128;
    fn from_u128(x: u128) -> Self;
    /// `Kmer::from(integer)` where the crate offers it for this storage (usize, u64)
    fn kmer_from_int<A: Codec, const K: usize>(_x: u128) -> Option<Kmer<A, K, Self>> {
        None
    }
    /// `Kmer::from(usize)` (offered for usize and u64 storage)
    fn kmer_from_usize<A: Codec, const K: usize>(_x: usize) -> Option<Kmer<A, K, Self>> {
        None
    }
    fn w_deref<A: SxK, const K: usize>(_k: &Kmer<A, K, Self>) -> Option<(Vec<A>, Vec<A>)> {
        None
    }
    fn w_with_slice<A: SxK, const K: usize>(_k: &Kmer<A, K, Self>, _f: &mut dyn FnMut(&SeqSlice<A>)) -> bool {
        false
    }
    fn w_try_from_seq<A: SxK, const K: usize>(_s: Seq<A>) -> Option<Result<Kmer<A, K, Self>, ParseBioError>> {
        None
    }
    fn w_eq_seq<A: SxK, const K: usize>(_k: &Kmer<A, K, Self>, _s: &Seq<A>) -> Option<bool> {
        None
    }
    fn w_eq_str<A: SxK, const K: usize>(_k: &Kmer<A, K, Self>, _s: &str) -> Option<bool> {
        None
    }
    fn w_into_seq<A: SxK, const K: usize>(_k: Kmer<A, K, Self>) -> Option<Seq<A>> {
        None
    }
    fn w_usize_from<A: SxK, const K: usize>(_k: &Kmer<A, K, Self>) -> Option<usize> {
        None
    }
    fn w_to_rev<A: SxK, const K: usize>(_k: &Kmer<A, K, Self>) -> Option<(Kmer<A, K, Self>, Kmer<A, K, Self>)> {
        None
    }
    fn w_kmers<A: SxK, const K: usize>(_s: &SeqSlice<A>, _cap: usize) -> Option<Vec<Kmer<A, K, Self>>> {
        None
    }
    fn w_comp<A: SxK, const K: usize>(_k: &Kmer<A, K, Self>) -> Option<[Kmer<A, K, Self>; 4]> {
        None
    }
    fn w_kmers_iter<'a, A: SxK, const K: usize>(_s: &'a SeqSlice<A>) -> Option<Box<dyn Iterator<Item = u128> + 'a>> {
        None
    }
    /// (min, max) of seq.kmers::<K>() through `Ord`
    fn w_minmax<A: SxK, const K: usize>(_s: &SeqSlice<A>) -> Option<(Option<Kmer<A, K, Self>>, Option<Kmer<A, K, Self>>)> {
        None
    }
}

impl Store for usize {
    const SID: Sid = Sid::Usize;
    const WIDTH: usize = 64;
    fn to_u128(self) -> u128 {
        self as u128
    }
    fn from_u128(x: u128) -> Self {
        x as usize
    }
    fn kmer_from_int<A: Codec, const K: usize>(x: u128) -> Option<Kmer<A, K, Self>> {
        Some(Kmer::<A, K, usize>::from(x as usize))
    }
    fn kmer_from_usize<A: Codec, const K: usize>(x: usize) -> Option<Kmer<A, K, Self>> {
        Some(Kmer::<A, K, usize>::from(x))
    }
    fn w_deref<A: SxK, const K: usize>(k: &Kmer<A, K, usize>) -> Option<(Vec<A>, Vec<A>)> {
        let d: &SeqSlice<A> = k;
        let r: &SeqSlice<A> = k.as_ref();
        Some((read(d), read(r)))
    }
    fn w_with_slice<A: SxK, const K: usize>(k: &Kmer<A, K, usize>, f: &mut dyn FnMut(&SeqSlice<A>)) -> bool {
        f(k);
        true
    }
    fn w_try_from_seq<A: SxK, const K: usize>(s: Seq<A>) -> Option<Result<Kmer<A, K, usize>, ParseBioError>> {
        Some(Kmer::<A, K, usize>::try_from(s))
    }
    fn w_eq_seq<A: SxK, const K: usize>(k: &Kmer<A, K, usize>, s: &Seq<A>) -> Option<bool> {
        Some(k == s)
    }
    fn w_eq_str<A: SxK, const K: usize>(k: &Kmer<A, K, usize>, s: &str) -> Option<bool> {
        Some(*k == s)
    }
    fn w_into_seq<A: SxK, const K: usize>(k: Kmer<A, K, usize>) -> Option<Seq<A>> {
        Some(Seq::from(k))
    }
    fn w_usize_from<A: SxK, const K: usize>(k: &Kmer<A, K, usize>) -> Option<usize> {
        Some(usize::from(k))
    }
    fn w_to_rev<A: SxK, const K: usize>(k: &Kmer<A, K, usize>) -> Option<(Kmer<A, K, usize>, Kmer<A, K, usize>)> {
        let a = k.to_rev();
        let mut b = *k;
        b.rev();
        Some((a, b))
    }
    fn w_kmers<A: SxK, const K: usize>(s: &SeqSlice<A>, cap: usize) -> Option<Vec<Kmer<A, K, usize>>> {
        Some(s.kmers::<K>().take(cap).collect())
    }
    fn w_comp<A: SxK, const K: usize>(k: &Kmer<A, K, usize>) -> Option<[Kmer<A, K, usize>; 4]> {
        A::k_comp::<K>(k)
    }
    fn w_kmers_iter<'a, A: SxK, const K: usize>(s: &'a SeqSlice<A>) -> Option<Box<dyn Iterator<Item = u128> + 'a>> {
        Some(Box::new(KmerVals::<A, K> { inner: s.kmers::<K>() }))
    }
    fn w_minmax<A: SxK, const K: usize>(s: &SeqSlice<A>) -> Option<(Option<Kmer<A, K, usize>>, Option<Kmer<A, K, usize>>)> {
        A::k_minmax::<K>(s)
    }
}

impl Store for u64 {
    const SID: Sid = Sid::U64;
    const WIDTH: usize = 64;
    fn to_u128(self) -> u128 {
        self as u128
    }
    fn from_u128(x: u128) -> Self {
        x as u64
    }
    fn kmer_from_int<A: Codec, const K: usize>(x: u128) -> Option<Kmer<A, K, Self>> {
        Some(Kmer::<A, K, u64>::from(x as u64))
    }
    fn kmer_from_usize<A: Codec, const K: usize>(x: usize) -> Option<Kmer<A, K, Self>> {
        Some(Kmer::<A, K, u64>::from(x))
    }
}

impl Store for u128 {
    const SID: Sid = Sid::U128;
    const WIDTH: usize = 128;
    fn to_u128(self) -> u128 {
        self
    }
    fn from_u128(x: u128) -> Self {
        x
    }
}

/// Object-safe view of one k-mer type.  Values are raw storage integers.
pub trait KmerApi<A: SxK>: Send + Sync {
    fn k(&self) -> usize;
    fn sid(&self) -> Sid;
    /// number of bits the k-mer's symbols occupy
    fn kbits(&self) -> usize {
        self.k() * A::BITS as usize
    }
    // ---- construction ----------------------------------------------------------------
    fn try_from_slice(&self, s: &SeqSlice<A>) -> Result<u128, ParseBioError>;
    fn unsafe_from_seqslice(&self, s: &SeqSlice<A>) -> u128;
    fn from_str(&self, s: &str) -> Result<u128, ParseBioError>;
    fn from_int(&self, x: u128) -> Option<u128>;
    fn from_usize(&self, x: usize) -> Option<u128>;
    // ---- observation -----------------------------------------------------------------
    fn display(&self, v: u128) -> String;
    /// format the k-mer `first` into sinks that fail (half way, and at once), then format `v` normally
    fn display_after_failed_write(&self, first: u128, v: u128) -> String;
    /// format!("{:>w$}|{:<w$}|{:^w$}", kmer, kmer, kmer)
    fn display_padded(&self, v: u128, w: usize) -> String;
    fn len(&self, v: u128) -> (usize, bool);
    fn hash(&self, v: u128) -> Recorder;
    fn sip(&self, v: u128) -> u64;
    /// what the vector `vec![a, b]` of k-mers feeds a hasher (length prefix + Hash::hash_slice)
    fn hash_pair(&self, a: u128, b: u128) -> Recorder;
    /// (a == b, a != b)
    fn eq(&self, a: u128, b: u128) -> (bool, bool);
    fn cmp(&self, a: u128, b: u128) -> Option<CmpObs>;
    /// (kmer == *slice, kmer == slice-as-&SeqSlice)
    fn eq_slice(&self, v: u128, s: &SeqSlice<A>) -> (bool, bool);
    /// kmer == SeqArray<A,K,1> / == &SeqArray<A,K,1> holding `content` (None when K symbols exceed one word)
    fn eq_array1(&self, v: u128, content: &[A]) -> Option<(bool, bool)>;
    // ---- operations ------------------------------------------------------------------
    fn rotated_left(&self, v: u128, n: u32) -> u128;
    fn rotated_right(&self, v: u128, n: u32) -> u128;
    fn pushl(&self, v: u128, a: A) -> u128;
    fn pushr(&self, v: u128, a: A) -> u128;
    // ---- usize-backed k-mers only ----------------------------------------------------
    /// symbols read through Deref and through AsRef
    fn deref(&self, v: u128) -> Option<(Vec<A>, Vec<A>)>;
    /// run `f` on the k-mer dereferenced to a slice; false when the type has no Deref
    fn with_slice(&self, v: u128, f: &mut dyn FnMut(&SeqSlice<A>)) -> bool;
    fn try_from_seq(&self, s: Seq<A>) -> Option<Result<u128, ParseBioError>>;
    fn eq_seq(&self, v: u128, s: &Seq<A>) -> Option<bool>;
    fn eq_str(&self, v: u128, s: &str) -> Option<bool>;
    fn into_seq(&self, v: u128) -> Option<Seq<A>>;
    fn usize_from(&self, v: u128) -> Option<usize>;
    /// (to_rev, rev in place)
    fn to_rev(&self, v: u128) -> Option<(u128, u128)>;
    /// seq.kmers::<K>() drained with a cap
    fn kmers(&self, s: &SeqSlice<A>, cap: usize) -> Option<Vec<u128>>;
    /// [to_comp, comp in place, to_revcomp, revcomp in place] (2-bit DNA only)
    fn comp(&self, v: u128) -> Option<[u128; 4]>;
    /// (min, max) of seq.kmers::<K>() through the k-mer's own `Ord` (orderable codecs only)
    fn minmax(&self, s: &SeqSlice<A>) -> Option<(Option<u128>, Option<u128>)>;
    /// the real `KmerIter` behind a box, items mapped to raw values (next/nth/count/last/size_hint forward to it)
    fn kmers_iter<'a>(&self, s: &'a SeqSlice<A>) -> Option<Box<dyn Iterator<Item = u128> + 'a>>;
}

pub struct KOps<A: SxK, const K: usize, S: Store>(PhantomData<(A, S)>);

impl<A: SxK, const K: usize, S: Store> KOps<A, K, S> {
    pub fn new() -> Self {
        KOps(PhantomData)
    }
    #[inline]
    fn mk(v: u128) -> Kmer<A, K, S> {
        Kmer { _p: PhantomData, bs: S::from_u128(v) }
    }
}

impl<A: SxK, const K: usize, S: Store> KmerApi<A> for KOps<A, K, S> {
    fn k(&self) -> usize {
        K
    }
    fn sid(&self) -> Sid {
        S::SID
    }
    fn try_from_slice(&self, s: &SeqSlice<A>) -> Result<u128, ParseBioError> {
        Kmer::<A, K, S>::try_from(s).map(|k| k.bs.to_u128())
    }
    fn unsafe_from_seqslice(&self, s: &SeqSlice<A>) -> u128 {
        Kmer::<A, K, S>::unsafe_from_seqslice(s).bs.to_u128()
    }
    fn from_str(&self, s: &str) -> Result<u128, ParseBioError> {
        Kmer::<A, K, S>::from_str(s).map(|k| k.bs.to_u128())
    }
    fn from_int(&self, x: u128) -> Option<u128> {
        S::kmer_from_int::<A, K>(x).map(|k| k.bs.to_u128())
    }
    fn from_usize(&self, x: usize) -> Option<u128> {
        S::kmer_from_usize::<A, K>(x).map(|k| k.bs.to_u128())
    }
    fn display(&self, v: u128) -> String {
        Self::mk(v).to_string()
    }
    fn display_after_failed_write(&self, first: u128, v: u128) -> String {
        bsv::fixture::display_after_failed_write(&Self::mk(first), K, &Self::mk(v))
    }
    fn display_padded(&self, v: u128, w: usize) -> String {
        let k = Self::mk(v);
        format!("{k:>w$}|{k:<w$}|{k:^w$}")
    }
    fn len(&self, v: u128) -> (usize, bool) {
        let k = Self::mk(v);
        (k.len(), k.is_empty())
    }
    fn hash(&self, v: u128) -> Recorder {
        rec::stream(&Self::mk(v))
    }
    fn sip(&self, v: u128) -> u64 {
        rec::sip(&Self::mk(v))
    }
    fn hash_pair(&self, a: u128, b: u128) -> Recorder {
        rec::stream(&vec![Self::mk(a), Self::mk(b)])
    }
    fn eq(&self, a: u128, b: u128) -> (bool, bool) {
        let (x, y) = (Self::mk(a), Self::mk(b));
        (x == y, x != y)
    }
    fn cmp(&self, a: u128, b: u128) -> Option<CmpObs> {
        A::k_cmp::<K, S>(&Self::mk(a), &Self::mk(b))
    }
    fn eq_slice(&self, v: u128, s: &SeqSlice<A>) -> (bool, bool) {
        let k = Self::mk(v);
        (k == *s, k == s)
    }
    fn eq_array1(&self, v: u128, content: &[A]) -> Option<(bool, bool)> {
        if K * A::BITS as usize > 64 || content.len() != K {
            return None;
        }
        let arr: SeqArray<A, K, 1> = array_of(content);
        let k = Self::mk(v);
        Some((k == arr, k == &arr))
    }
    fn rotated_left(&self, v: u128, n: u32) -> u128 {
        Self::mk(v).rotated_left(n).bs.to_u128()
    }
    fn rotated_right(&self, v: u128, n: u32) -> u128 {
        Self::mk(v).rotated_right(n).bs.to_u128()
    }
    fn pushl(&self, v: u128, a: A) -> u128 {
        Self::mk(v).pushl(a).bs.to_u128()
    }
    fn pushr(&self, v: u128, a: A) -> u128 {
        Self::mk(v).pushr(a).bs.to_u128()
    }
    fn deref(&self, v: u128) -> Option<(Vec<A>, Vec<A>)> {
        S::w_deref::<A, K>(&Self::mk(v))
    }
    fn with_slice(&self, v: u128, f: &mut dyn FnMut(&SeqSlice<A>)) -> bool {
        S::w_with_slice::<A, K>(&Self::mk(v), f)
    }
    fn try_from_seq(&self, s: Seq<A>) -> Option<Result<u128, ParseBioError>> {
        S::w_try_from_seq::<A, K>(s).map(|r| r.map(|k| k.bs.to_u128()))
    }
    fn eq_seq(&self, v: u128, s: &Seq<A>) -> Option<bool> {
        S::w_eq_seq::<A, K>(&Self::mk(v), s)
    }
    fn eq_str(&self, v: u128, s: &str) -> Option<bool> {
        S::w_eq_str::<A, K>(&Self::mk(v), s)
    }
    fn into_seq(&self, v: u128) -> Option<Seq<A>> {
        S::w_into_seq::<A, K>(Self::mk(v))
    }
    fn usize_from(&self, v: u128) -> Option<usize> {
        S::w_usize_from::<A, K>(&Self::mk(v))
    }
    fn to_rev(&self, v: u128) -> Option<(u128, u128)> {
        S::w_to_rev::<A, K>(&Self::mk(v)).map(|(a, b)| (a.bs.to_u128(), b.bs.to_u128()))
    }
    fn kmers(&self, s: &SeqSlice<A>, cap: usize) -> Option<Vec<u128>> {
        S::w_kmers::<A, K>(s, cap).map(|v| v.into_iter().map(|k| k.bs.to_u128()).collect())
    }
    fn comp(&self, v: u128) -> Option<[u128; 4]> {
        S::w_comp::<A, K>(&Self::mk(v)).map(|a| [a[0].bs.to_u128(), a[1].bs.to_u128(), a[2].bs.to_u128(), a[3].bs.to_u128()])
    }
    fn minmax(&self, s: &SeqSlice<A>) -> Option<(Option<u128>, Option<u128>)> {
        S::w_minmax::<A, K>(s).map(|(a, b)| (a.map(|k| k.bs.to_u128()), b.map(|k| k.bs.to_u128())))
    }
    fn kmers_iter<'a>(&self, s: &'a SeqSlice<A>) -> Option<Box<dyn Iterator<Item = u128> + 'a>> {
        S::w_kmers_iter::<A, K>(s)
    }
}

/// The k-mer type (codec A, storage, K), or None when K does not fit.
pub fn kmer_api<A: SxK>(sid: Sid, k: usize) -> Option<Box<dyn KmerApi<A>>> {
    A::kmer_api(sid, k)
}

/// `KmerIter` with items mapped to raw storage values; every overridable consumer forwards to the
/// real iterator so that the protocol exploration reaches the real `nth`, `count`, `last`, `size_hint`.
pub struct KmerVals<'a, A: Codec, const K: usize> {
    inner: bio_seq::kmer::KmerIter<'a, A, K>,
}

impl<A: Codec, const K: usize> Iterator for KmerVals<'_, A, K> {
    type Item = u128;
    fn next(&mut self) -> Option<u128> {
        self.inner.next().map(|k| k.bs as u128)
    }
    fn nth(&mut self, n: usize) -> Option<u128> {
        self.inner.nth(n).map(|k| k.bs as u128)
    }
    fn size_hint(&self) -> (usize, Option<usize>) {
        self.inner.size_hint()
    }
    fn count(self) -> usize {
        self.inner.count()
    }
    fn last(self) -> Option<u128> {
        self.inner.last().map(|k| k.bs as u128)
    }
}

/// The k-mer side of a codec: which k-mer types exist and the hooks that need `Ord` or 2-bit DNA.
pub trait SxK: Sx {
    fn kmer_api(sid: Sid, k: usize) -> Option<Box<dyn KmerApi<Self>>>;
    fn k_cmp<const K: usize, S: Store>(_a: &Kmer<Self, K, S>, _b: &Kmer<Self, K, S>) -> Option<CmpObs> {
        None
    }
    /// [to_comp, comp in place, to_revcomp, revcomp in place] for usize-backed 2-bit DNA
    fn k_comp<const K: usize>(_k: &Kmer<Self, K, usize>) -> Option<[Kmer<Self, K, usize>; 4]> {
        None
    }
    #[allow(clippy::type_complexity)]
    fn k_minmax<const K: usize>(_s: &SeqSlice<Self>) -> Option<(Option<Kmer<Self, K, usize>>, Option<Kmer<Self, K, usize>>)> {
        None
    }
}

macro_rules! sxk_ord {
    () => {
        fn k_cmp<const K: usize, S: Store>(a: &Kmer<Self, K, S>, b: &Kmer<Self, K, S>) -> Option<CmpObs> {
            Some(cmp_obs(a, b))
        }
        fn k_minmax<const K: usize>(s: &SeqSlice<Self>) -> Option<(Option<Kmer<Self, K, usize>>, Option<Kmer<Self, K, usize>>)> {
            let cap = s.len() + 5;
            Some((s.kmers::<K>().take(cap).min(), s.kmers::<K>().take(cap).max()))
        }
    };
}

macro_rules! sxk_api {
    ($f:ident) => {
        fn kmer_api(sid: Sid, k: usize) -> Option<Box<dyn KmerApi<Self>>> {
            crate::kdispatch::$f(sid, k)
        }
    };
}

impl SxK for Dna {
    sxk_api!(api_dna);
    sxk_ord!();
    fn k_comp<const K: usize>(k: &Kmer<Self, K, usize>) -> Option<[Kmer<Self, K, usize>; 4]> {
        let a = Complement::to_comp(k);
        let mut b = *k;
        ComplementMut::comp(&mut b);
        let c = ReverseComplement::to_revcomp(k);
        let mut d = *k;
        ReverseComplementMut::revcomp(&mut d);
        Some([a, b, c, d])
    }
}
impl SxK for Iupac {
    sxk_api!(api_iupac);
}
impl SxK for Amino {
    sxk_api!(api_amino);
}
impl SxK for TDna {
    sxk_api!(api_text);
    sxk_ord!();
}
impl SxK for MDna {
    sxk_api!(api_mdna);
    sxk_ord!();
}
impl SxK for MIupac {
    sxk_api!(api_miupac);
    sxk_ord!();
}
impl SxK for DegDna {
    sxk_api!(api_degen);
    sxk_ord!();
}

/// Dispatch a generic function over the codec named by an id, with the k-mer bound.
#[macro_export]
macro_rules! dispatch_k {
    ($cid:expr, $f:ident ( $($args:expr),* $(,)? )) => {
        match $cid {
            bsv::Cid::Dna => $f::<bsv::Dna>($($args),*),
            bsv::Cid::Iupac => $f::<bsv::Iupac>($($args),*),
            bsv::Cid::Amino => $f::<bsv::Amino>($($args),*),
            bsv::Cid::Text => $f::<bsv::TDna>($($args),*),
            bsv::Cid::MDna => $f::<bsv::MDna>($($args),*),
            bsv::Cid::MIupac => $f::<bsv::MIupac>($($args),*),
            bsv::Cid::Degen => $f::<bsv::DegDna>($($args),*),
            other => panic!("{other:?}: the harness-defined codecs are not instantiated for k-mers"),
        }
    };
}
