//! C04 — documented little-endian packing: symbol i lives at bits
//! [i*BITS, (i+1)*BITS).  Integer conversion of slices / owned sequences /
//! k-mers, decoding integers as k-mers, refusal of too-long slices, the raw
//! word image of owned sequences however they were produced, and rebuilding
//! from an image with every symbol count.

use bsv::fixture::*;
use bsv::model::*;
use bsv::producers::{self, Produced};
use bsv::*;
use bsvk::*;
use serde::{Deserialize, Serialize};
use serde_json::json;
use std::borrow::ToOwned;

#[derive(Serialize, Deserialize, Hash, Clone, Debug)]
enum Case {
    /// the README table: Kmer::<Dna,5>::from(0..=15)
    Readme,
    /// Seq::<text::Dna>::from(Vec<usize>): raw words read as 8 text symbols per word
    TextFromWords { words: usize },
    /// integer conversion for one k-mer type: all contents (small) or the P(K) family
    Ints { cid: Cid, sid: Sid, k: usize },
    /// slices longer than a word are refused
    Refuse { cid: Cid },
    /// raw image + from_raw for every producer at length n
    Raw { cid: Cid, n: usize, variant: u64 },
    /// raw image of Seq::from(kmer)
    RawFromKmer { cid: Cid, k: usize },
}

fn content_bound(t: Tier) -> f64 {
    t.pick(65536.0, 1048576.0)
}

fn gen(t: Tier, _seed: u64, emit: &mut dyn FnMut(Case)) {
    emit(Case::Readme);
    for words in 0..=5 {
        emit(Case::TextFromWords { words });
    }
    for cid in Cid::ALL {
        for sid in Sid::ALL {
            for k in k_set(cid, sid, t.thorough()) {
                emit(Case::Ints { cid, sid, k });
            }
        }
        emit(Case::Refuse { cid });
        let mut ns = wb_lengths(cid.bits(), t.pick(2, 3));
        ns.extend([4, 5, 7]);
        ns.extend(long_lengths(cid.bits()));
        ns.extend(huge_lengths(cid.bits()));
        ns.sort();
        ns.dedup();
        for n in ns {
            for variant in 0..t.pick(1, 2) {
                emit(Case::Raw { cid, n, variant });
            }
        }
        for k in k_set(cid, Sid::Usize, t.thorough()) {
            emit(Case::RawFromKmer { cid, k });
        }
    }
}

fn run(c: &Case, out: &mut Out) {
    match c {
        Case::Readme => readme(out),
        Case::TextFromWords { words } => {
            let text: Vec<u8> = (0..*words * 8).map(|i| b"ACGTN"[(i * 7 + i / 5) % 5]).collect();
            let ws: Vec<usize> = pack_words(&text, 8).iter().map(|w| *w as usize).collect();
            out.stage = "Seq::<text::Dna>::from(Vec<usize>)";
            let r = out.catch(|| Seq::<TDna>::from(ws.clone()));
            let ok = matches!(&r, Ok(s) if s.len() == text.len() && s.to_string().as_bytes() == &text[..] && s.into_raw() == &ws[..]);
            out.check(ok, || ("text::Dna/from-words/not-little-endian-packing".into(), format!("Seq::<text::Dna>::from({ws:x?}) = {:?}, want {:?}", r.as_ref().map(|s| s.to_string()), String::from_utf8_lossy(&text))));
            out.observe(&(*words, ok));
        }
        Case::Ints { cid, sid, k } => bsvk::dispatch_k!(*cid, ints(*sid, *k, out)),
        Case::RawFromKmer { cid, k } => bsvk::dispatch_k!(*cid, raw_from_kmer(*k, out)),
        Case::Refuse { cid } => dispatch!(*cid, refuse(out)),
        Case::Raw { cid, n, variant } => dispatch!(*cid, raw(*n, *variant, out)),
    }
}

fn readme(out: &mut Out) {
    use bio_seq::kmer::Kmer;
    let table = [
        "AAAAA", "CAAAA", "GAAAA", "TAAAA", "ACAAA", "CCAAA", "GCAAA", "TCAAA", "AGAAA", "CGAAA", "GGAAA", "TGAAA", "ATAAA", "CTAAA", "GTAAA", "TTAAA",
    ];
    out.stage = "Kmer::<Dna,5>::from(i)";
    for (i, want) in table.iter().enumerate() {
        let got = out.catch(|| Kmer::<Dna, 5>::from(i).to_string());
        out.check(got.as_deref() == Ok(*want), || ("readme/kmer-from-int-table".into(), format!("Kmer::<Dna,5>::from({i}) displays {:?}, README says {want}", got)));
    }
    out.observe(&0u8);
}

/// enumerate the contents for a K: everything when |alphabet|^K fits the bound, else P(K)
fn contents<A: Sx>(k: usize, out: &mut Out, f: &mut dyn FnMut(&[A], bool, &mut Out)) {
    let m = alphabet::<A>().len();
    let all = (m as f64).powi(k as i32) <= content_bound(out.tier);
    let seed = out.seed;
    let mut list: Vec<Vec<u8>> = Vec::new();
    if all {
        all_seqs(k, m, &mut |v| list.push(v.to_vec()));
    } else {
        pfamily(k, m, seed, &mut |v| list.push(v.to_vec()));
    }
    out.flag(if all { "some K enumerated over all contents" } else { "some K enumerated over the P(K) family only" }, true);
    for v in list {
        f(&syms::<A>(&v), all, out);
    }
}

fn ints<A: SxK>(sid: Sid, k: usize, out: &mut Out) {
    let Some(api) = kmer_api::<A>(sid, k) else {
        out.violation("MACHINERY/k-does-not-fit", format!("{:?} {sid:?} K={k}", A::CID));
        return;
    };
    let api = &*api;
    let cn = A::CID.name();
    let sn = sid.name();
    let bits = A::BITS as usize;
    let nof = noff(bits);
    out.dim("k_bits", (k * bits) as i64);
    contents::<A>(k, out, &mut |content, all, out| {
        out.units += 1;
        let want: u128 = pack_u128(&codes(content), bits);
        // offsets: every one for the pattern family, a content-dependent one when all contents are enumerated
        let offs: Vec<usize> = if all { vec![(want as usize).wrapping_mul(7) % nof, 0] } else { (0..nof).collect() };
        for &s in &offs {
            let pl = place(content, s, 0);
            out.stage = "Kmer::try_from(&slice).bs";
            let km = out.catch(|| api.try_from_slice(pl.view()));
            out.check(matches!(&km, Ok(Ok(g)) if *g == want), || {
                (
                    format!("{cn}/kmer<{sn}>.bs/not-little-endian-packing"),
                    format!("Kmer<_,{k},{sn}>::try_from({} at slice offset {s}).bs = {:x?}, packing gives {want:#x}", show(content), km),
                )
            });
            if sid == Sid::Usize {
                out.stage = "usize::try_from(&SeqSlice)";
                let got = out.catch(|| usize::try_from(pl.view()));
                out.check(matches!(&got, Ok(Ok(g)) if *g as u128 == want), || {
                    (
                        format!("{cn}/usize-try_from-slice/not-little-endian-packing"),
                        format!("usize::try_from(slice {} at offset {s}) = {:?}, packing gives {want:#x}", show(content), got),
                    )
                });
                if k * bits <= 8 {
                    out.stage = "u8::from(&SeqSlice)";
                    let got = out.catch(|| u8::from(pl.view()));
                    out.check(matches!(&got, Ok(g) if *g as u128 == want), || {
                        (
                            format!("{cn}/u8-from-slice/not-little-endian-packing"),
                            format!("u8::from(slice {} at offset {s}) = {:?}, packing gives {want:#x}", show(content), got),
                        )
                    });
                }
                out.stage = "usize::from(Seq copied from a slice)";
                let got = out.catch(|| usize::from(pl.view().to_owned()));
                out.check(matches!(&got, Ok(g) if *g as u128 == want), || {
                    (
                        format!("{cn}/usize-from-copied-seq/not-little-endian-packing"),
                        format!("usize::from(to_owned(slice {} at offset {s})) = {:?}, packing gives {want:#x}", show(content), got),
                    )
                });
            }
        }
        // decoding the integer as a k-mer yields exactly those symbols
        out.stage = "Kmer::from(int).to_string()";
        if let Ok(Some(v)) = out.catch(|| api.from_int(want)) {
            let got = out.catch(|| api.display(v));
            out.check(got.as_deref() == Ok(show(content).as_str()) && v == want, || {
                (
                    format!("{cn}/kmer<{sn}>-from-int/wrong-symbols"),
                    format!("Kmer<_,{k},{sn}>::from({want:#x}) displays {:?} (value {v:#x}), want {}", got, show(content)),
                )
            });
        }
        if let Ok(Some(v)) = out.catch(|| api.from_usize(want as usize)) {
            let got = out.catch(|| api.display(v));
            out.check(got.as_deref() == Ok(show(content).as_str()), || {
                (
                    format!("{cn}/kmer<{sn}>-from-usize/wrong-symbols"),
                    format!("Kmer<_,{k},{sn}>::from({want:#x}usize) displays {:?}, want {}", got, show(content)),
                )
            });
        }
        // any k-mer value displays as its symbols (the integer itself is the k-mer)
        out.stage = "Kmer{bs: int}.to_string()";
        let got = out.catch(|| api.display(want));
        out.check(got.as_deref() == Ok(show(content).as_str()), || {
            (format!("{cn}/kmer<{sn}>-display/wrong-symbols"), format!("the Kmer<_,{k},{sn}> with integer {want:#x} displays {:?}, want {}", got, show(content)))
        });
        if sid == Sid::Usize {
            out.stage = "usize::from(Seq)";
            let got = out.catch(|| usize::from(build(content)));
            out.check(matches!(&got, Ok(g) if *g as u128 == want), || {
                (format!("{cn}/usize-from-seq/not-little-endian-packing"), format!("usize::from(Seq {}) = {:?}, packing gives {want:#x}", show(content), got))
            });
            out.stage = "usize::from(&Kmer)";
            let got = out.catch(|| api.usize_from(want));
            out.check(matches!(&got, Ok(Some(g)) if *g as u128 == want), || {
                (format!("{cn}/usize-from-kmer/not-little-endian-packing"), format!("usize::from(&Kmer {}) = {:?}, packing gives {want:#x}", show(content), got))
            });
        }
        out.observe(&(A::CID, k, want as u64 & 0xffff));
    });
}

fn refuse<A: Sx>(out: &mut Out) {
    let cn = A::CID.name();
    let bits = A::BITS as usize;
    let fit = 64 / bits;
    let m = alphabet::<A>().len();
    for n in [fit + 1, fit + 2, 2 * fit, 2 * fit + 1, 4 * fit, 8 * fit + 1, 64 * fit + 3] {
        for s in 0..noff(bits) {
            out.units += 1;
            let content = syms::<A>(&bg(n, m, 70 + s as u64, out.seed));
            let pl = place(&content, s, 0);
            out.stage = "usize::try_from(&long slice)";
            let got = out.catch(|| usize::try_from(pl.view()));
            // (refused with an error; the variant and its payload are not pinned down)
            out.check(matches!(&got, Ok(Err(_))), || {
                (
                    format!("{cn}/usize-try_from-slice/long-slice-not-refused"),
                    format!("usize::try_from(slice of {n} symbols = {} bits at offset {s}) = {:?}, expected Err(SequenceTooLong)", n * bits, got),
                )
            });
            // the infallible conversions have no error to return: they must not hand back a (truncated) integer
            out.stage = "usize::from(long owned Seq)";
            let got = out.catch(|| usize::from(pl.view().to_owned()));
            out.check(got.is_err(), || {
                (
                    format!("{cn}/usize-from-seq/long-sequence-not-refused"),
                    format!("usize::from(owned copy of a slice of {n} symbols = {} bits) returned {:x?} instead of refusing", n * bits, got),
                )
            });
            out.stage = "u8::from(&long slice)";
            let got = out.catch(|| u8::from(pl.view()));
            out.check(got.is_err(), || {
                (
                    format!("{cn}/u8-from-slice/long-slice-not-refused"),
                    format!("u8::from(slice of {n} symbols = {} bits at offset {s}) returned {:x?} instead of refusing", n * bits, got),
                )
            });
        }
    }
    // more than a byte but at most a word: u8::from has to refuse, too
    for n in [8 / bits + 1, 8 / bits + 2, 16 / bits, fit] {
        if n * bits <= 8 {
            continue;
        }
        for s in 0..noff(bits) {
            let content = syms::<A>(&bg(n, m, 72 + s as u64, out.seed));
            let pl = place(&content, s, 0);
            out.stage = "u8::from(&slice longer than a byte)";
            let got = out.catch(|| u8::from(pl.view()));
            out.check(got.is_err(), || {
                (
                    format!("{cn}/u8-from-slice/long-slice-not-refused"),
                    format!("u8::from(slice of {n} symbols = {} bits at offset {s}) returned {:x?} instead of refusing", n * bits, got),
                )
            });
        }
    }
    // exactly one word still converts
    for s in 0..noff(bits) {
        let content = syms::<A>(&bg(fit, m, 71 + s as u64, out.seed));
        let pl = place(&content, s, 0);
        let want = pack_u128(&codes(&content), bits);
        let got = out.catch(|| usize::try_from(pl.view()));
        out.check(matches!(&got, Ok(Ok(g)) if *g as u128 == want), || {
            (format!("{cn}/usize-try_from-slice/not-little-endian-packing"), format!("usize::try_from(slice of exactly {fit} symbols at offset {s}) = {:?}, want {want:#x}", got))
        });
    }
    out.observe(&(A::CID, fit));
}

/// The word image of one produced value, and from_raw over every count.
fn image_checks<A: Sx>(pr: &Produced<A>, out: &mut Out) {
    let cn = A::CID.name();
    let bits = A::BITS as usize;
    let n = pr.codes.len();
    out.units += 1;
    // producer class for the signature: strip the numbers
    let pclass: String = pr.name.chars().filter(|c| !c.is_ascii_digit()).collect();
    out.stage = "into_raw";
    let raw: Vec<usize> = match out.catch(|| pr.seq.into_raw().to_vec()) {
        Ok(r) => r,
        Err(m) => {
            out.violation(format!("{cn}/into_raw/panics"), format!("into_raw of {} panicked: {m}", pr.name));
            return;
        }
    };
    if let Some(h) = head_of(&pr.seq) {
        out.dim("head_bit", h as i64);
    }
    out.check(pr.seq.len() == n, || (format!("{cn}/producer/wrong-length"), format!("{} has length {} (model {n})", pr.name, pr.seq.len())));
    let mut image_ok = raw.len() * 64 >= n * bits;
    if image_ok {
        for (i, c) in pr.codes.iter().enumerate() {
            if bits_at(&raw, i * bits, bits) != Some(*c as u64) {
                image_ok = false;
                break;
            }
        }
    }
    out.check(image_ok, || {
        (
            format!("{cn}/into_raw/symbols-not-at-bit-0-layout [{pclass}]"),
            format!(
                "into_raw() of {} (len {n}, codes {:?}…) = {:x?}: symbol i is not at bits [i*{bits}, (i+1)*{bits}) from bit 0 of word 0 (internal head {:?})",
                pr.name,
                &pr.codes[..n.min(6)],
                &raw[..raw.len().min(4)],
                head_of(&pr.seq)
            ),
        )
    });
    // rebuilding from the image with every symbol count
    out.stage = "from_raw";
    let cap = raw.len() * 64 / bits;
    let counts: Vec<usize> = if cap <= 1200 {
        (0..=cap + 2).collect()
    } else {
        let mut c = vec![0, 1, n / 2, n.saturating_sub(1), n, n + 1, cap.saturating_sub(1), cap, cap + 1, cap + 2];
        c.sort();
        c.dedup();
        c
    };
    for count in counts {
        let got = out.catch(|| Seq::<A>::from_raw(count, &raw));
        let fits = count * bits <= raw.len() * 64;
        match (&got, fits) {
            (Ok(None), false) => {
                out.checks += 1;
            }
            (Ok(Some(s)), false) => {
                out.checks += 1;
                out.violation(
                    format!("{cn}/from_raw/returns-sequence-for-count-the-image-cannot-hold"),
                    format!("from_raw({count}, image of {} words) = Some(len {}) but {count} x {bits} bits > {} bits", raw.len(), s.len(), raw.len() * 64),
                );
            }
            (Ok(None), true) => {
                out.checks += 1;
                out.violation(
                    format!("{cn}/from_raw/refuses-count-the-image-holds"),
                    format!("from_raw({count}, image of {} words) = None but the image holds {cap} symbols", raw.len()),
                );
            }
            (Ok(Some(s)), true) => {
                let mut ok = s.len() == count;
                if ok && pr.symbolic && image_ok {
                    // compare raw codes (a produced code may be a documented alternative, which
                    // get() would canonicalise)
                    let back: Vec<usize> = s.into_raw().to_vec();
                    for i in 0..count.min(n) {
                        if bits_at(&back, i * bits, bits) != Some(pr.codes[i] as u64) {
                            ok = false;
                        }
                    }
                    if count == n {
                        ok &= *s == pr.seq && pr.seq == *s;
                    }
                }
                out.check(ok, || {
                    (
                        format!("{cn}/from_raw/wrong-sequence"),
                        format!("from_raw({count}, image of {}) gives len {} {:?}; original {}", pr.name, s.len(), catch(|| render(s)), catch(|| render(&pr.seq)).unwrap_or_default()),
                    )
                });
                // a sequence and the rebuild of its own image must be equal, whatever the image layout
                if count == n && !image_ok {
                    let same = catch(|| *s == pr.seq).unwrap_or(false);
                    out.check(same, || {
                        (
                            format!("{cn}/from_raw/rebuild-of-own-image-differs [{pclass}]"),
                            format!("from_raw(len, into_raw()) of {} is not equal to it", pr.name),
                        )
                    });
                }
            }
            (Err(m), _) => {
                out.checks += 1;
                out.violation(format!("{cn}/from_raw/panics"), format!("from_raw({count}, image of {} words) panicked: {m}", raw.len()));
            }
        }
    }
    out.observe(&(A::CID, n, image_ok, raw.first().map(|w| *w & 0xff)));
}

fn raw<A: Sx>(n: usize, variant: u64, out: &mut Out) {
    let m = alphabet::<A>().len();
    let nof = noff(A::BITS as usize);
    let content = syms::<A>(&bg(n, m, 80 + variant, out.seed));
    let other = syms::<A>(&bg(n, m, 90 + variant, out.seed));
    let offsets: Vec<usize> = if n > 1200 { vec![0, 1] } else if out.tier.thorough() { (0..nof).collect() } else { vec![0, 1, nof / 2 + 1, nof - 1] };
    out.dim("len", n as i64);
    let prods = match catch(|| producers::producers::<A>(&content, &other, &offsets, true)) {
        Ok(p) => p,
        Err(m) => {
            out.violation(format!("{}/producer/panics", A::CID.name()), format!("building the producers for {} panicked: {m}", show_cut(&content)));
            return;
        }
    };
    out.count("producers", prods.len() as u64);
    for pr in &prods {
        image_checks::<A>(pr, out);
    }
}

fn raw_from_kmer<A: SxK>(k: usize, out: &mut Out) {
    let Some(api) = kmer_api::<A>(Sid::Usize, k) else {
        out.violation("MACHINERY/k-does-not-fit", format!("{:?} K={k}", A::CID));
        return;
    };
    let m = alphabet::<A>().len();
    let content = syms::<A>(&bg(k, m, 85, out.seed));
    for s in [0usize, 1, noff(A::BITS as usize) - 1] {
        let pl = place(&content, s, 0);
        out.stage = "Seq::from(Kmer)";
        let r = out.catch(|| api.try_from_slice(pl.view()).ok().and_then(|v| api.into_seq(v)));
        match r {
            Ok(Some(seq)) => {
                let pr = Produced { name: format!("Seq::from(Kmer<_,{k}> of slice@{s})"), seq, codes: codes(&content), symbolic: true };
                image_checks::<A>(&pr, out);
            }
            other => out.violation(format!("{}/producer/seq-from-kmer-fails", A::CID.name()), format!("K={k}: {:?}", other.map(|o| o.map(|s| s.to_string())))),
        }
    }
}

use bsv::run::catch;

fn main() {
    main_loop("C04", gen, run, |t| {
        json!({
            "content_bound": content_bound(t),
            "integer_conversions": ["usize::try_from(&SeqSlice) at every offset", "u8::from(&SeqSlice) (K*BITS<=8)", "usize::from(Seq) fresh and copied from an offset slice", "usize::from(&Kmer)", "Kmer<_,K,S>.bs for usize/u64/u128", "Kmer::from(usize|u64).to_string()", "Kmer<u64>::from(usize)"],
            "producers": "bsv/src/producers.rs: parsed, collected, From<&Vec>, with_capacity+extend, clone, to_owned of offset slices (incl. of offset-copied parents), From<&SeqSlice>, to_rev/to_comp/to_revcomp/to_mask, | and & on slices, bit_or/bit_and on owned, edit histories (truncate, remove front/mid, clear+rebuild, prepend/append/insert of offset windows), empty values with a history, Seq::from(Kmer)",
            "from_raw_counts": "every count in 0..=words*64/BITS+2",
        })
    });
}
