//! C10 — ordering is colexicographic = numeric order of the packed integer.
//! Orderable codecs only (those whose symbol type is `Ord`): dna, text, masked
//! dna, masked iupac, degenerate.

use bsv::fixture::*;
use bsv::model::*;
use bsv::run::catch;
use bsv::*;
use bsvk::*;
use serde::{Deserialize, Serialize};
use serde_json::json;
use std::cmp::Ordering;

#[derive(Serialize, Deserialize, Hash, Clone, Debug)]
enum Case {
    /// all pairs (and all triples when small) of k-mers of one type
    AllPairs { cid: Cid, sid: Sid, k: usize },
    /// pairs differing in exactly one position, lower positions ordered the other way
    OnePosition { cid: Cid, sid: Sid, k: usize },
    /// min / max / sort of the k-mers of sequences (usize-backed)
    MinMax { cid: Cid, k: usize },
    /// equal-length owned sequences: all pairs over the alphabet up to 256 sequences of length n
    SeqAllPairs { cid: Cid, n: usize },
    /// equal-length owned sequences of length n: one-position pairs, fresh and headed
    SeqOnePosition { cid: Cid, n: usize },
    /// owned sequences built with from_raw over every decodable code (documented alternatives included)
    SeqAltCodes { cid: Cid, n: usize },
}

fn pair_bound(t: Tier) -> f64 {
    t.pick(256.0, 1024.0)
}

fn gen(t: Tier, _seed: u64, emit: &mut dyn FnMut(Case)) {
    for cid in Cid::ORD {
        let m = bsv::spec::spec(cid).syms.len() as f64;
        for sid in Sid::ALL {
            for k in 1..=max_k(cid, sid) {
                if m.powi(k as i32) <= pair_bound(t) {
                    emit(Case::AllPairs { cid, sid, k });
                }
            }
            for k in k_set(cid, sid, t.thorough()) {
                emit(Case::OnePosition { cid, sid, k });
            }
        }
        for k in k_set(cid, Sid::Usize, t.thorough()) {
            emit(Case::MinMax { cid, k });
        }
        let mut n = 0;
        while m.powi(n as i32) <= 256.0 && n <= 8 {
            emit(Case::SeqAllPairs { cid, n });
            n += 1;
        }
        if !bsv::spec::spec(cid).syms.iter().all(|s| s.alts.is_empty()) {
            for n in [1usize, 2, 3] {
                emit(Case::SeqAltCodes { cid, n });
            }
        }
        for n in wb_lengths(cid.bits(), t.pick(2, 3)).into_iter().chain(long_lengths(cid.bits()).into_iter().take(t.pick(4, 7))).chain(huge_lengths(cid.bits()).into_iter().step_by(2)) {
            if n > 0 {
                emit(Case::SeqOnePosition { cid, n });
            }
        }
    }
}

fn run(c: &Case, out: &mut Out) {
    match c {
        Case::AllPairs { cid, .. } | Case::OnePosition { cid, .. } | Case::MinMax { cid, .. } | Case::SeqAllPairs { cid, .. } | Case::SeqOnePosition { cid, .. } | Case::SeqAltCodes { cid, .. } => {
            bsvk::dispatch_k!(*cid, run_g(c, out))
        }
    }
}

fn consistent(o: &CmpObs) -> bool {
    o.partial == Some(o.cmp)
        && o.lt == (o.cmp == Ordering::Less)
        && o.gt == (o.cmp == Ordering::Greater)
        && o.le == (o.cmp != Ordering::Greater)
        && o.ge == (o.cmp != Ordering::Less)
        // max(a, b) is b unless a > b; min(a, b) is a unless a > b (std's tie rules); a lies within [min, max]
        && (o.max_is_b || o.cmp == Ordering::Greater)
        && (o.min_is_a || o.cmp == Ordering::Greater)
        && (o.cmp != Ordering::Greater || (!o.max_is_b && !o.min_is_a))
        && o.clamp_ok
}

/// one ordered pair of k-mers against integer order and the colexicographic model
fn pair<A: SxK>(api: &dyn KmerApi<A>, a: &[A], b: &[A], out: &mut Out) {
    let cn = A::CID.name();
    let sn = api.sid().name();
    let bits = A::BITS as usize;
    let (ca, cb) = (codes(a), codes(b));
    let (va, vb) = (pack_u128(&ca, bits), pack_u128(&cb, bits));
    let want = colex(&ca, &cb);
    // model self-check: colex order is integer order
    debug_assert_eq!(want, va.cmp(&vb));
    let got = catch(|| (api.cmp(va, vb), api.eq(va, vb)));
    match got {
        Ok((Some(o), (eq, ne))) => {
            out.check(o.cmp == want && o.cmp == va.cmp(&vb), || {
                (
                    format!("{cn}/kmer<{sn}>-cmp/not-colexicographic"),
                    format!("cmp({}, {}) = {:?}; colexicographic (last symbol most significant) = integer order = {:?}", show(a), show(b), o.cmp, want),
                )
            });
            out.check(consistent(&o) && eq == (o.cmp == Ordering::Equal) && ne != eq && eq == (ca == cb), || {
                (format!("{cn}/kmer<{sn}>-cmp/inconsistent-operators"), format!("({}, {}): {:?}, == {eq}, != {ne}", show(a), show(b), o))
            });
        }
        Ok((None, _)) => out.violation("MACHINERY/codec-not-orderable", cn),
        Err(m) => {
            out.checks += 1;
            out.violation(format!("{cn}/kmer<{sn}>-cmp/panics"), format!("cmp({}, {}) panicked: {m}", show(a), show(b)));
        }
    }
}

fn seq_pair<A: SxK>(kind: &str, sa: &Seq<A>, sb: &Seq<A>, a: &[A], b: &[A], out: &mut Out) {
    let cn = A::CID.name();
    let want = colex(&codes(a), &codes(b));
    let got = catch(|| A::seq_cmp_obs(sa, sb));
    match got {
        Ok(Some(o)) => {
            out.check(o.cmp == want, || {
                // classify the wrong answer: is it the bit-0-first (lexicographic over bits) order?
                let bitlex = {
                    let (wa, wb) = (pack_words(&codes(a), A::BITS as usize), pack_words(&codes(b), A::BITS as usize));
                    let mut r = Ordering::Equal;
                    'o: for (x, y) in wa.iter().zip(&wb) {
                        for i in 0..64 {
                            let (p, q) = ((x >> i) & 1, (y >> i) & 1);
                            if p != q {
                                r = p.cmp(&q);
                                break 'o;
                            }
                        }
                    }
                    r
                };
                let class = if o.cmp == bitlex { "orders-by-bit-0-first-not-colex" } else { "not-colexicographic" };
                (
                    format!("{cn}/seq-cmp/{class}"),
                    format!("Seq cmp({}, {}) ({kind}) = {:?}; the k-mers with the same content order {:?} (colexicographic)", show_cut(a), show_cut(b), o.cmp, want),
                )
            });
            out.check(consistent(&o) && (o.cmp == Ordering::Equal) == (sa == sb), || {
                (format!("{cn}/seq-cmp/inconsistent-operators"), format!("({}, {}): {:?}, == {}", show_cut(a), show_cut(b), o, sa == sb))
            });
        }
        Ok(None) => out.violation("MACHINERY/codec-not-orderable", cn),
        Err(m) => {
            out.checks += 1;
            out.violation(format!("{cn}/seq-cmp/panics"), format!("Seq cmp({}, {}) panicked: {m}", show_cut(a), show_cut(b)));
        }
    }
}

/// merge sort driven by a comparator (the real `Ord` of the k-mer type)
fn sort_by(v: &mut Vec<u128>, cmp: &dyn Fn(u128, u128) -> Ordering) {
    if v.len() <= 1 {
        return;
    }
    let mut r = v.split_off(v.len() / 2);
    sort_by(v, cmp);
    sort_by(&mut r, cmp);
    let l = std::mem::take(v);
    let (mut i, mut j) = (0, 0);
    while i < l.len() && j < r.len() {
        if cmp(r[j], l[i]) == Ordering::Less {
            v.push(r[j]);
            j += 1;
        } else {
            v.push(l[i]);
            i += 1;
        }
    }
    v.extend_from_slice(&l[i..]);
    v.extend_from_slice(&r[j..]);
}

fn run_g<A: SxK>(c: &Case, out: &mut Out) {
    let cn = A::CID.name();
    let al = alphabet::<A>();
    let m = al.len();
    let bits = A::BITS as usize;
    match c {
        Case::AllPairs { sid, k, .. } => {
            let Some(api) = kmer_api::<A>(*sid, *k) else { return };
            let api = &*api;
            let mut all: Vec<Vec<A>> = Vec::new();
            all_seqs(*k, m, &mut |v| all.push(syms::<A>(v)));
            for a in &all {
                for b in &all {
                    out.units += 1;
                    pair::<A>(api, a, b, out);
                }
            }
            // totality / transitivity over all triples when the type is tiny
            if all.len() <= 64 {
                let vals: Vec<u128> = all.iter().map(|a| pack_u128(&codes(a), bits)).collect();
                let mut bad = 0;
                for &x in &vals {
                    for &y in &vals {
                        for &z in &vals {
                            out.checks += 1;
                            let (xy, yz, xz) = (api.cmp(x, y).unwrap().cmp, api.cmp(y, z).unwrap().cmp, api.cmp(x, z).unwrap().cmp);
                            if xy != Ordering::Greater && yz != Ordering::Greater && xz == Ordering::Greater {
                                bad += 1;
                            }
                            if xy != api.cmp(y, x).unwrap().cmp.reverse() {
                                bad += 1;
                            }
                        }
                    }
                }
                out.check(bad == 0, || (format!("{cn}/kmer-cmp/not-a-total-order"), format!("K={k} {sid:?}: {bad} transitivity/antisymmetry failures")));
            }
            out.dim("k_bits", (*k * bits) as i64);
            out.observe(&(A::CID, *sid, *k));
        }
        Case::OnePosition { sid, k, .. } => {
            let Some(api) = kmer_api::<A>(*sid, *k) else { return };
            let api = &*api;
            // symbols sorted by code; lo/hi extremes for the lower positions
            let mut by_code = al.clone();
            by_code.sort_by_key(|a| a.to_bits());
            let (lo, hi) = (by_code[0], by_code[m - 1]);
            let base = syms::<A>(&bg(*k, m, 120, out.seed));
            for p in 0..*k {
                for &x in &al {
                    for &y in &al {
                        if x == y {
                            continue;
                        }
                        out.units += 1;
                        let mut a = base.clone();
                        let mut b = base.clone();
                        a[p] = x;
                        b[p] = y;
                        // lower positions ordered the opposite way to position p
                        let x_less = x.to_bits() < y.to_bits();
                        for q in 0..p {
                            a[q] = if x_less { hi } else { lo };
                            b[q] = if x_less { lo } else { hi };
                        }
                        pair::<A>(api, &a, &b, out);
                    }
                }
            }
            // total order consistent with equality over storage values in general (Kmer::from(integer) is
            // public and unchecked): values with bits above the K symbols as well
            let kb = *k * bits;
            let width = sid.width();
            if kb < width {
                let lowmask: u128 = (1u128 << kb) - 1;
                let vals: Vec<u128> = {
                    let c = pack_u128(&codes(&base), bits);
                    let hi1 = 1u128 << kb;
                    let hitop = 1u128 << (width - 1);
                    vec![c, c | hi1, c | hitop, (c ^ 1) & lowmask, ((c ^ 1) & lowmask) | hi1, c | hi1 | hitop]
                };
                for &x in &vals {
                    for &y in &vals {
                        if let Ok((Some(o), (eq, ne))) = catch(|| (api.cmp(x, y), api.eq(x, y))) {
                            out.check((o.cmp == Ordering::Equal) == eq && eq != ne && consistent(&o), || {
                                (
                                    format!("{cn}/kmer<{}>-cmp/order-inconsistent-with-equality", sid.name()),
                                    format!("storage values {x:#x} and {y:#x} (K={k}): cmp = {:?} but == is {eq}", o.cmp),
                                )
                            });
                        }
                    }
                }
            }
            out.dim("k", *k as i64);
            out.observe(&(A::CID, *sid, *k, 1u8));
        }
        Case::MinMax { k, .. } => {
            let k = *k;
            let Some(api) = kmer_api::<A>(Sid::Usize, k) else { return };
            let api = &*api;
            let spw = 64 / bits;
            for n in [k, k + 1, k + 2, k + spw + 1, 2 * k + 3] {
                for s in [0usize, 1, noff(bits) - 1] {
                    for variant in 0..3u64 {
                        out.units += 1;
                        let content = syms::<A>(&bg(n, m, 121 + variant, out.seed));
                        let pl = place(&content, s, 0);
                        let windows: Vec<Vec<u8>> = (0..=n - k).map(|i| codes(&content[i..i + k])).collect();
                        let vals: Vec<u128> = windows.iter().map(|w| pack_u128(w, bits)).collect();
                        let want_min = vals.iter().min().copied();
                        let want_max = vals.iter().max().copied();
                        out.stage = "kmers().min()/max()";
                        let got = out.catch(|| api.minmax(pl.view()));
                        out.check(matches!(&got, Ok(Some((mn, mx))) if *mn == want_min && *mx == want_max), || {
                            (
                                format!("{cn}/kmers-minmax/not-the-colexicographic-minimiser"),
                                format!("min/max of the {k}-mers of {} = {:x?}, want ({want_min:x?}, {want_max:x?})", show_cut(&content), got),
                            )
                        });
                        out.stage = "sort by the k-mers' Ord";
                        let got = out.catch(|| {
                            let mut v = api.kmers(pl.view(), n + 5).unwrap();
                            sort_by(&mut v, &|a, b| api.cmp(a, b).unwrap().cmp);
                            v
                        });
                        let mut want = vals.clone();
                        want.sort();
                        out.check(got.as_ref().ok() == Some(&want), || {
                            (format!("{cn}/kmers-sort/not-colexicographic"), format!("sorting the {k}-mers of {} by their Ord does not give numeric order", show_cut(&content)))
                        });
                    }
                }
            }
            out.dim("k", k as i64);
            out.observe(&(A::CID, k, 2u8));
        }
        Case::SeqAllPairs { n, .. } => {
            let mut all: Vec<Vec<A>> = Vec::new();
            all_seqs(*n, m, &mut |v| all.push(syms::<A>(v)));
            let fresh: Vec<Seq<A>> = all.iter().map(|a| build(a)).collect();
            let headed: Vec<Seq<A>> = all.iter().enumerate().map(|(i, a)| owned_headed(a, 1 + i % 5)).collect();
            for (i, a) in all.iter().enumerate() {
                for (j, b) in all.iter().enumerate() {
                    out.units += 1;
                    seq_pair::<A>("fresh,fresh", &fresh[i], &fresh[j], a, b, out);
                    if (i + j) % 3 == 0 {
                        seq_pair::<A>("headed,fresh", &headed[i], &fresh[j], a, b, out);
                        seq_pair::<A>("headed,headed", &headed[i], &headed[j], a, b, out);
                    }
                }
            }
            out.dim("seq_len", *n as i64);
            out.observe(&(A::CID, *n, 3u8));
        }
        Case::SeqAltCodes { n, .. } => {
            // every sequence of length n over the decodable codes; order must be the numeric order of the packed bits,
            // i.e. that of the k-mer holding the same bits
            let decodable: Vec<u8> = (0..=255u8).filter(|c| (*c as usize) < (1usize << bits) && A::try_from_bits(*c).is_some()).collect();
            let mut all: Vec<Vec<u8>> = Vec::new();
            all_seqs(*n, decodable.len(), &mut |v| all.push(v.iter().map(|&i| decodable[i as usize]).collect()));
            let stride = (all.len() / 200).max(1);
            let picked: Vec<&Vec<u8>> = all.iter().step_by(stride).collect();
            let seqs: Vec<Option<Seq<A>>> = picked.iter().map(|c| Seq::<A>::from_raw(*n, &pack_words(c, bits).iter().map(|w| *w as usize).collect::<Vec<usize>>())).collect();
            for (i, a) in picked.iter().enumerate() {
                for (j, b) in picked.iter().enumerate() {
                    let (Some(sa), Some(sb)) = (&seqs[i], &seqs[j]) else { continue };
                    out.units += 1;
                    let want = colex(a, b);
                    let got = catch(|| A::seq_cmp_obs(sa, sb));
                    out.check(matches!(&got, Ok(Some(o)) if o.cmp == want), || {
                        (
                            format!("{cn}/seq-cmp/alternative-codes-not-ordered-like-kmers"),
                            format!("Seq from_raw codes {a:?} vs {b:?}: cmp = {:?}, the k-mers with the same bits order {:?}", got.as_ref().map(|o| o.map(|o| o.cmp)), want),
                        )
                    });
                }
            }
            out.observe(&(A::CID, *n, 5u8));
        }
        Case::SeqOnePosition { n, .. } => {
            let mut by_code = al.clone();
            by_code.sort_by_key(|a| a.to_bits());
            let (lo, hi) = (by_code[0], by_code[m - 1]);
            let base = syms::<A>(&bg(*n, m, 122, out.seed));
            let positions: Vec<usize> = if *n <= 300 {
                (0..*n).collect()
            } else {
                let spw = (64 / bits).max(1);
                let mut p = vec![0, 1, *n / 2, *n - 2, *n - 1, spw - 1, spw, 64 * spw - 1, 64 * spw];
                p.retain(|x| *x < *n);
                p.sort();
                p.dedup();
                p
            };
            for p in positions {
                for (xi, &x) in al.iter().enumerate().filter(|(xi, _)| *n <= 300 || *xi == 0 || *xi == m - 1) {
                    let y = al[(xi + 1 + p % (m - 1)) % m];
                    if x == y {
                        continue;
                    }
                    out.units += 1;
                    let mut a = base.clone();
                    let mut b = base.clone();
                    a[p] = x;
                    b[p] = y;
                    let x_less = x.to_bits() < y.to_bits();
                    for q in 0..p {
                        a[q] = if x_less { hi } else { lo };
                        b[q] = if x_less { lo } else { hi };
                    }
                    seq_pair::<A>("fresh,fresh", &build(&a), &build(&b), &a, &b, out);
                    seq_pair::<A>("headed,fresh", &owned_headed(&a, 3), &build(&b), &a, &b, out);
                    seq_pair::<A>("fresh,fresh(swapped)", &build(&b), &build(&a), &b, &a, out);
                }
            }
            out.dim("seq_len", *n as i64);
            out.observe(&(A::CID, *n, 4u8));
        }
    }
}

fn main() {
    main_loop("C10", gen, run, |t| {
        json!({
            "orderable_codecs": Cid::ORD.iter().map(|c| c.name()).collect::<Vec<_>>(),
            "scope_note": "Kmer<C,..> and Seq<C> are Ord only when the symbol type C is Ord; iupac::Iupac and amino::Amino are not, so their sequences have no ordering to check",
            "pair_bound": pair_bound(t),
            "oracle": "compare from the last symbol down (model) == numeric order of the packed integer",
        })
    });
}
