//! C03 — slicing and indexing select exactly the requested symbols, or refuse.
//! Every parent kind (owned, offset slice, offset slice of an offset-copied
//! parent, static array, k-mer) x every range form x every in-bounds (a, b) x
//! nested re-slicing x out-of-bounds just past the end.

use bitvec::prelude::*;
use bsv::fixture::*;
use bsv::*;
use bsvk::*;
use serde::{Deserialize, Serialize};
use serde_json::json;
use std::marker::PhantomData;

#[derive(Serialize, Deserialize, Hash, Clone, Debug)]
enum Case {
    /// slice view of length `n` at symbol offset `s` in a flanked parent (ph > 0: the parent was itself copied from offset ph)
    View { cid: Cid, n: usize, s: usize, ph: usize, variant: u64 },
    /// indexing an owned `Seq` directly (through Deref)
    Owned { cid: Cid, n: usize, variant: u64 },
    /// static array `SeqArray<A, N, 3>` built from model words
    Array { cid: Cid, n: usize },
    /// usize-backed k-mer dereferenced to a slice
    KmerDeref { cid: Cid, k: usize },
}

const ARRAY_NS: [usize; 22] = [0, 1, 2, 3, 5, 7, 8, 9, 10, 11, 12, 13, 15, 16, 17, 21, 22, 24, 31, 32, 33, 64];

fn gen(t: Tier, _seed: u64, emit: &mut dyn FnMut(Case)) {
    for cid in Cid::ALL {
        let bits = cid.bits();
        let mut ns: Vec<usize> = (0..=10).collect();
        ns.extend(wb_lengths(bits, t.pick(2, 3)));
        ns.sort();
        ns.dedup();
        for &n in &ns {
            for variant in 0..t.pick(1, 2) {
                emit(Case::Owned { cid, n, variant });
                for s in 0..noff(bits) {
                    emit(Case::View { cid, n, s, ph: 0, variant });
                }
                for ph in [1usize, noff(bits) / 2 + 1, noff(bits) - 1] {
                    for s in [0usize, 1, noff(bits) - 1] {
                        emit(Case::View { cid, n, s, ph, variant });
                    }
                }
            }
        }
        for n in long_lengths(bits) {
            emit(Case::Owned { cid, n, variant: 3 });
            for s in [0usize, 1, noff(bits) - 1] {
                emit(Case::View { cid, n, s, ph: 0, variant: 3 });
            }
            emit(Case::View { cid, n, s: 1, ph: noff(bits) / 2 + 1, variant: 3 });
        }
        for n in huge_lengths(bits).into_iter().step_by(2) {
            emit(Case::Owned { cid, n, variant: 4 });
            emit(Case::View { cid, n, s: 1, ph: 0, variant: 4 });
        }
        for n in ARRAY_NS {
            if n * bits <= 192 {
                emit(Case::Array { cid, n });
            }
        }
        for k in k_set(cid, Sid::Usize, t.thorough()) {
            emit(Case::KmerDeref { cid, k });
        }
    }
}

fn run(c: &Case, out: &mut Out) {
    match c {
        Case::View { cid, .. } | Case::Owned { cid, .. } | Case::Array { cid, .. } => dispatch!(*cid, run_g(c, out)),
        Case::KmerDeref { cid, k } => bsvk::dispatch_k!(*cid, kmer_parent(*k, out)),
    }
}

fn kmer_parent<A: SxK>(k: usize, out: &mut Out) {
    let Some(api) = kmer_api::<A>(Sid::Usize, k) else {
        out.violation("MACHINERY/k-does-not-fit", format!("{:?} K={k}", A::CID));
        return;
    };
    let m = alphabet::<A>().len();
    let content: Vec<A> = syms::<A>(&bg(k, m, 5, out.seed));
    let src = place(&content, 3, 0);
    out.stage = "Kmer::try_from(&slice)";
    let v = match out.catch(|| api.try_from_slice(src.view())) {
        Ok(Ok(v)) => v,
        other => {
            out.violation(format!("{}/kmer-parent/cannot-construct", A::CID.name()), format!("Kmer::<_, {k}>::try_from({}) = {:?}", show(&content), other));
            return;
        }
    };
    out.stage = "Deref for Kmer";
    api.with_slice(v, &mut |p: &SeqSlice<A>| check_parent::<A>("kmer", p, &content, 2, false, out));
    out.dim("kmer_k", k as i64);
}

/// (a, b) pairs to try for a parent of length n: all of them when n is small or
/// `full`, else both coordinates restricted to within 2 of an end or of a
/// machine-word boundary.
fn positions<A: Codec>(n: usize, full: bool) -> Vec<usize> {
    if n <= 12 || (full && n <= 200) {
        return (0..=n).collect();
    }
    if n > 2000 {
        // very long parents: the ends, the middle, the first and last word boundaries and the 64-word boundary
        let bits = A::BITS as usize;
        let mut v = vec![0, 1, n / 2, n - 1, n];
        let words = n * bits / 64;
        for w in [1usize, 64, words.saturating_sub(1), words] {
            let b = 64 * w / bits;
            for p in [b.saturating_sub(1), b, b + 1] {
                if p <= n {
                    v.push(p);
                }
            }
        }
        v.sort();
        v.dedup();
        return v;
    }
    let bits = A::BITS as usize;
    let mut v: Vec<usize> = vec![];
    for e in [0usize, n] {
        for d in 0..=3 {
            v.push(e.saturating_sub(d));
            v.push((e + d).min(n));
        }
    }
    let mut w = 1;
    while 64 * w / bits <= n + 2 {
        // beyond 20 words only the powers of two (and the last few) word boundaries
        if w > 20 && !w.is_power_of_two() && 64 * (w + 3) / bits <= n {
            w += 1;
            continue;
        }
        let b = 64 * w / bits;
        for d in 0..=2usize {
            if b >= d && b - d <= n {
                v.push(b - d);
            }
            if b + d <= n {
                v.push(b + d);
            }
        }
        w += 1;
    }
    v.sort();
    v.dedup();
    v
}

fn sub_ok<A: Codec>(sub: &SeqSlice<A>, want: &[A]) -> bool {
    if sub.len() != want.len() || sub.is_empty() != want.is_empty() {
        return false;
    }
    for (i, w) in want.iter().enumerate() {
        if sub.get(i) != Some(*w) || sub.nth(i) != *w {
            return false;
        }
    }
    sub.get(want.len()).is_none()
}

/// All slicing/indexing laws on one parent `p` whose symbols must be `model`.
fn check_parent<A: Sx>(kind: &str, p: &SeqSlice<A>, model: &[A], depth: usize, full: bool, out: &mut Out) {
    let cn = A::CID.name();
    let n = model.len();
    out.units += 1;
    out.stage = "len/get/nth";
    out.check(p.len() == n && p.is_empty() == (n == 0), || {
        (format!("{cn}/{kind}/len"), format!("parent of {n} symbols reports len {} is_empty {}", p.len(), p.is_empty()))
    });
    if p.len() != n {
        return;
    }
    for i in 0..n {
        let g = p.get(i);
        let single = out.catch(|| {
            let s = &p[i];
            (s.len(), s.get(0))
        });
        let nth = out.catch(|| p.nth(i));
        out.check(g == Some(model[i]) && nth.as_ref().ok() == Some(&model[i]) && single.as_ref().ok() == Some(&(1, Some(model[i]))), || {
            (
                format!("{cn}/{kind}/index-wrong-symbol"),
                format!(
                    "parent {} position {i}: get={:?} nth={:?} [i]={:?}, want {:?}",
                    show(model),
                    g,
                    nth,
                    single,
                    model[i]
                ),
            )
        });
    }
    // ... including positions whose bit offset does not fit a machine word
    out.stage = "out-of-bounds index (far)";
    let b = A::BITS as usize;
    let far: Vec<usize> = [
        Some(usize::MAX),
        Some(usize::MAX - 1),
        Some(usize::MAX / b),
        (usize::MAX / b).checked_add(1),
        (usize::MAX / b).checked_add(2),
        Some(1usize << 63),
        Some((1usize << 63) + 1),
        Some(1usize << 62),
        Some(1usize << 61),
        (1usize << 61).checked_add(n),
        Some(usize::MAX / 2 + 1),
    ]
    .into_iter()
    .flatten()
    .collect();
    for i in far {
        if i < n {
            continue;
        }
        let g = p.get(i);
        out.check(g.is_none(), || (format!("{cn}/{kind}/get-far-past-end-returns-symbol"), format!("get({i:#x}) on length {n} = {:?}", g)));
        let r = out.catch(|| p.nth(i));
        out.check(r.is_err(), || (format!("{cn}/{kind}/nth-far-past-end-does-not-panic"), format!("nth({i:#x}) on length {n} returned {:?}", r)));
        let r = out.catch(|| p[i].len());
        out.check(r.is_err(), || (format!("{cn}/{kind}/index-far-past-end-does-not-panic"), format!("[{i:#x}] on length {n} returned a slice of len {:?}", r)));
        let r1 = out.catch(|| p[i..].len());
        let r2 = out.catch(|| p[..i].len());
        let r3 = if i < usize::MAX { out.catch(|| p[i..i + 1].len()) } else { Err("n/a".to_string()) };
        let r4 = out.catch(|| p[..=i].len());
        let r5 = out.catch(|| p[0..=i].len());
        out.check(r1.is_err() && r2.is_err() && r3.is_err() && r4.is_err() && r5.is_err(), || {
            (
                format!("{cn}/{kind}/range-far-past-end-does-not-panic"),
                format!("on length {n}: [{i:#x}..] -> {:?}, [..{i:#x}] -> {:?}, [{i:#x}..+1] -> {:?}, [..={i:#x}] -> {:?}, [0..={i:#x}] -> {:?}", r1, r2, r3, r4, r5),
            )
        });
    }
    // positional access beyond the end never returns a symbol
    out.stage = "out-of-bounds index";
    for i in [n, n + 1, n + 2] {
        let g = p.get(i);
        out.check(g.is_none(), || {
            (format!("{cn}/{kind}/get-past-end-returns-symbol"), format!("get({i}) on length {n} = {:?}", g))
        });
        let r = out.catch(|| p.nth(i));
        out.check(r.is_err(), || {
            (format!("{cn}/{kind}/nth-past-end-does-not-panic"), format!("nth({i}) on length {n} returned {:?}", r))
        });
        let r = out.catch(|| p[i].len());
        out.check(r.is_err(), || {
            (format!("{cn}/{kind}/index-past-end-does-not-panic"), format!("[{i}] on length {n} returned a slice of len {:?}", r))
        });
    }
    let pos = positions::<A>(n, full);
    out.stage = "range forms";
    for &a in &pos {
        for &b in &pos {
            if a > b {
                continue;
            }
            let want = &model[a..b];
            let mut forms: Vec<(&str, Result<bool, String>)> = Vec::with_capacity(7);
            forms.push(("a..b", out.catch(|| sub_ok(&p[a..b], want))));
            if b >= 1 {
                forms.push(("a..=b-1", out.catch(|| sub_ok(&p[a..=b - 1], want))));
            }
            if a == 0 {
                forms.push(("..b", out.catch(|| sub_ok(&p[..b], want))));
                if b >= 1 {
                    forms.push(("..=b-1", out.catch(|| sub_ok(&p[..=b - 1], want))));
                }
            }
            if b == n {
                forms.push(("a..", out.catch(|| sub_ok(&p[a..], want))));
                if a == 0 {
                    forms.push(("..", out.catch(|| sub_ok(&p[..], want))));
                }
            }
            for (f, r) in forms {
                out.check(r == Ok(true), || {
                    (
                        format!("{cn}/{kind}/range-{f}-wrong"),
                        format!("parent {} (len {n}): [{f}] with a={a} b={b} gives the wrong slice ({:?})", show(model), r),
                    )
                });
            }
            // nested re-slicing
            if depth >= 2 && want.len() <= 12 {
                if let Ok(sub) = out.catch(|| &p[a..b]) {
                    nested::<A>(kind, sub, want, depth - 1, out);
                }
            }
        }
    }
    // out-of-bounds ranges just past the end must panic, never return symbols
    out.stage = "out-of-bounds range";
    for b in [n + 1, n + 2] {
        for &a in &pos {
            let r1 = out.catch(|| p[a..b].len());
            let r2 = out.catch(|| p[a..=b - 1].len());
            out.check(r1.is_err() && r2.is_err(), || {
                (
                    format!("{cn}/{kind}/range-past-end-does-not-panic"),
                    format!("[{a}..{b}] / [{a}..={}] on length {n} returned {:?} / {:?}", b - 1, r1, r2),
                )
            });
        }
        let r3 = out.catch(|| p[..b].len());
        let r4 = out.catch(|| p[..=b - 1].len());
        let r5 = out.catch(|| p[b..].len());
        out.check(r3.is_err() && r4.is_err() && r5.is_err(), || {
            (
                format!("{cn}/{kind}/range-past-end-does-not-panic"),
                format!("[..{b}] / [..={}] / [{b}..] on length {n} returned {:?} / {:?} / {:?}", b - 1, r3, r4, r5),
            )
        });
    }
    out.observe(&(A::CID, n, p.get(0).map(|a| a.to_bits()), p.get(n / 2).map(|a| a.to_bits())));
}

fn nested<A: Sx>(kind: &str, p: &SeqSlice<A>, model: &[A], depth: usize, out: &mut Out) {
    let cn = A::CID.name();
    let n = model.len();
    for a in 0..=n {
        for b in a..=n {
            let want = &model[a..b];
            let r = out.catch(|| sub_ok(&p[a..b], want));
            out.check(r == Ok(true), || {
                (
                    format!("{cn}/{kind}/nested-range-wrong"),
                    format!("re-slicing {} with [{a}..{b}] gives the wrong slice ({:?})", show(model), r),
                )
            });
            if b > a {
                let r = out.catch(|| sub_ok(&p[a..=b - 1], want));
                out.check(r == Ok(true), || {
                    (format!("{cn}/{kind}/nested-range-wrong"), format!("re-slicing {} with [{a}..={}] gives the wrong slice", show(model), b - 1))
                });
            }
            if depth >= 2 && want.len() <= 6 {
                if let Ok(sub) = out.catch(|| &p[a..b]) {
                    nested::<A>(kind, sub, want, depth - 1, out);
                }
            }
        }
    }
    let r = out.catch(|| p[n + 1..].len());
    let r2 = out.catch(|| p[..n + 1].len());
    out.check(r.is_err() && r2.is_err() && p.get(n).is_none(), || {
        (
            format!("{cn}/{kind}/nested-range-past-end-does-not-panic"),
            format!("re-slice of length {n}: [{}..] -> {:?}, [..{}] -> {:?}, get({n}) -> {:?}", n + 1, r, n + 1, r2, p.get(n)),
        )
    });
}

fn array_parent<A: Sx, const N: usize>(content: &[A], out: &mut Out) {
    let w = bsv::model::pack_words(&codes(content), A::BITS as usize);
    let mut words = [0usize; 3];
    for (i, x) in w.iter().enumerate() {
        words[i] = *x as usize;
    }
    // bits past the sequence are arbitrary in a static array; fill them to catch over-reads
    let used = N * A::BITS as usize;
    for b in used..192 {
        if b % 3 != 0 {
            words[b / 64] |= 1 << (b % 64);
        }
    }
    let arr: SeqArray<A, N, 3> = SeqArray { _p: PhantomData, ba: BitArray::new(words) };
    out.stage = "Deref for SeqArray";
    let p: &SeqSlice<A> = &arr;
    check_parent::<A>("array", p, content, 2, false, out);
    let q: &SeqSlice<A> = arr.as_ref();
    out.check(q.len() == N, || (format!("{}/array/as_ref-len", A::CID.name()), format!("as_ref().len() = {} for N = {N}", q.len())));
}

fn run_g<A: Sx>(c: &Case, out: &mut Out) {
    let m = alphabet::<A>().len();
    let deep = out.tier.thorough();
    match c {
        Case::View { n, s, ph, variant, .. } => {
            let content: Vec<A> = syms::<A>(&bg(*n, m, *variant, out.seed));
            let pl = if *ph == 0 { place(&content, *s, *variant as usize) } else { place_headed(&content, *s, *variant as usize, *ph) };
            if let Some(h) = head_of(&pl.parent) {
                out.dim("parent_head_bit", h as i64);
            }
            out.dim("view_bit_offset", ((*s * A::BITS as usize) % 64) as i64);
            out.dim("len", *n as i64);
            let depth = if *n <= 10 { 3 } else { 2 };
            check_parent::<A>("view", pl.view(), &content, depth, deep && *s < 2, out);
        }
        Case::Owned { n, variant, .. } => {
            let content: Vec<A> = syms::<A>(&bg(*n, m, *variant, out.seed));
            let seq = build(&content);
            out.dim("len", *n as i64);
            let depth = if *n <= 10 { 3 } else { 2 };
            // index the owned sequence itself (Deref)
            check_parent::<A>("owned", &seq, &content, depth, deep, out);
        }
        Case::Array { n, .. } => {
            let content: Vec<A> = syms::<A>(&bg(*n, m, 7, out.seed));
            macro_rules! arr {
                ($($k:literal),*) => { match *n { $($k => array_parent::<A, $k>(&content, out),)* _ => out.violation("MACHINERY/array-n", format!("{n}")) } };
            }
            arr!(0, 1, 2, 3, 5, 7, 8, 9, 10, 11, 12, 13, 15, 16, 17, 21, 22, 24, 31, 32, 33, 64);
        }
        Case::KmerDeref { .. } => unreachable!(),
    }
}

fn main() {
    main_loop("C03", gen, run, |_| {
        json!({
            "range_forms": ["a..b", "a..=b-1", "..b", "..=b-1", "a..", "..", "single index"],
            "parent_kinds": ["owned Seq (Deref)", "slice at every bit offset of a flanked parent", "slice of a parent copied from an offset slice", "SeqArray<A,N,3> built from model words", "Kmer<A,K,usize> (Deref)"],
            "nesting": "depth 3 for n <= 10, depth 2 otherwise",
        })
    });
}
