//! C02 — equality and hashing depend only on content, for every sequence type
//! and offset: every PartialEq impl in both directions, `!=`, the data fed to a
//! hasher (recorded), map lookups through Borrow, and comparison with text.

use bsv::fixture::*;
use bsv::rec;
use bsv::*;
use bsvk::*;
use serde::{Deserialize, Serialize};
use serde_json::json;
use std::collections::{HashMap, HashSet};
/// fixed-key hasher state: the containers' behaviour must not depend on per-process random keys
type Fixed = std::hash::BuildHasherDefault<std::collections::hash_map::DefaultHasher>;

#[derive(Serialize, Deserialize, Hash, Clone, Debug)]
enum Case {
    /// X of length n at symbol offset s1 against every variant Y of X at symbol offset s2
    Pair { cid: Cid, n: usize, s1: usize, s2: usize },
    /// X held in a static array SeqArray<A, N, 3>
    Array { cid: Cid, n: usize },
    /// both operands are windows of the SAME buffer: every pair of windows of length n (and n-1, n+1) of one parent
    Alias { cid: Cid, n: usize },
}

const ARRAY_NS: [usize; 14] = [0, 1, 2, 3, 4, 8, 10, 12, 16, 21, 24, 32, 33, 64];

/// lengths that get the full offset-pair treatment
fn lengths(cid: Cid, t: Tier) -> Vec<usize> {
    let mut ns: Vec<usize> = (0..=4).collect();
    ns.extend(wb_lengths(cid.bits(), 2));
    for sid in Sid::ALL {
        if t.thorough() {
            ns.extend(1..=max_k(cid, sid));
        } else {
            ns.extend(reduced_k_set(cid, sid));
        }
    }
    ns.sort();
    ns.dedup();
    ns
}

fn gen(t: Tier, _seed: u64, emit: &mut dyn FnMut(Case)) {
    for cid in Cid::ALL {
        let nof = noff(cid.bits());
        let special: Vec<usize> = vec![0, 1, nof / 2 + 1, nof - 1];
        let full = lengths(cid, t);
        for n in &full {
            for s1 in 0..nof {
                for s2 in 0..nof {
                    if t.thorough() || special.contains(&s1) || special.contains(&s2) || s1 == s2 {
                        emit(Case::Pair { cid, n: *n, s1, s2 });
                    }
                }
            }
        }
        // every other K that fits some storage: k-mer equality and hashing at a few offset pairs
        for n in 1..=max_k(cid, Sid::U128) {
            if !full.contains(&n) {
                for (s1, s2) in [(0, 0), (1, nof - 1), (nof / 2 + 1, 1), (nof - 1, nof / 2 + 1)] {
                    emit(Case::Pair { cid, n, s1, s2 });
                }
            }
        }
        for n in long_lengths(cid.bits()) {
            for (s1, s2) in [(0, 0), (1, nof - 1), (nof / 2 + 1, 1), (nof - 1, nof / 2 + 1), (0, 1)] {
                emit(Case::Pair { cid, n, s1, s2 });
            }
        }
        for n in huge_lengths(cid.bits()) {
            for (s1, s2) in [(0, 0), (1, 0), (nof - 1, 1)] {
                emit(Case::Pair { cid, n, s1, s2 });
            }
        }
        for n in ARRAY_NS {
            if n * cid.bits() <= 192 {
                emit(Case::Array { cid, n });
            }
        }
        let spw = 64 / cid.bits();
        for n in [0usize, 1, 2, 3, spw - 1, spw, spw + 1] {
            emit(Case::Alias { cid, n });
        }
    }
}

fn run(c: &Case, out: &mut Out) {
    match c {
        Case::Pair { cid, .. } | Case::Array { cid, .. } | Case::Alias { cid, .. } => bsvk::dispatch_k!(*cid, run_g(c, out)),
    }
}

/// Variants Y of X: equal; one symbol changed (every position; every other symbol when n <= 4, one otherwise);
/// proper prefix / suffix; one symbol longer; empty.
fn variants<A: Sx>(x: &[A]) -> Vec<(&'static str, Vec<A>)> {
    let al = alphabet::<A>();
    let n = x.len();
    let mut v: Vec<(&'static str, Vec<A>)> = vec![("equal", x.to_vec())];
    // every position when short; for long sequences the ends, the middle and both sides of every 64th word boundary
    let positions: Vec<usize> = if n <= 300 {
        (0..n).collect()
    } else {
        let mut p = vec![0, 1, n / 2, n - 2, n - 1];
        let spw = (64 / A::BITS as usize).max(1);
        let mut w = spw;
        while w < n {
            p.extend([w - 1, w]);
            w = w * 2 + spw;
        }
        p.retain(|x| *x < n);
        p.sort();
        p.dedup();
        p
    };
    for i in positions {
        let k = al.iter().position(|a| *a == x[i]).unwrap_or(0);
        let others: Vec<A> = if n <= 4 { al.iter().copied().filter(|a| *a != x[i]).collect() } else { vec![al[(k + 1 + i % (al.len() - 1)) % al.len()]] };
        for o in others {
            if o != x[i] {
                let mut y = x.to_vec();
                y[i] = o;
                v.push(("one-symbol-changed", y));
            }
        }
    }
    // the same bit pattern flipped in several machine words at once (differences that cancel when per-word
    // differences are combined carelessly): one symbol per word in two, three or all words, and every symbol
    let spw = (64 / A::BITS as usize).max(1);
    if n >= 2 * spw {
        let words = n / spw;
        let mut sets: Vec<Vec<usize>> = vec![(0..n).collect()];
        for i in [0, 1, spw - 1] {
            sets.push((0..words).map(|w| w * spw + i).collect());
            sets.push(vec![i, i + spw]);
            if words >= 3 {
                sets.push(vec![i, i + 2 * spw]);
                sets.push(vec![i, i + spw, i + 2 * spw]);
            }
            if words >= 4 {
                sets.push(vec![i + spw, i + 3 * spw]);
                sets.push((0..words).step_by(2).map(|w| w * spw + i).collect());
            }
        }
        for set in sets {
            // a constant d such that code ^ d is again a (canonical) symbol code at every chosen position
            let found = (1..(1u16 << A::BITS)).map(|d| d as u8).find(|d| set.iter().all(|&j| A::try_from_bits(x[j].to_bits() ^ d).map(|a| a.to_bits()) == Some(x[j].to_bits() ^ d)));
            if let Some(d) = found {
                let mut y = x.to_vec();
                for &j in &set {
                    y[j] = A::try_from_bits(x[j].to_bits() ^ d).unwrap();
                }
                v.push(("same-bit-pattern-flipped-in-several-words", y));
            }
        }
    }
    if n >= 1 {
        v.push(("minus-last", x[..n - 1].to_vec()));
        v.push(("minus-first", x[1..].to_vec()));
        v.push(("empty", vec![]));
    }
    let mut y = x.to_vec();
    y.push(al[0]);
    v.push(("plus-one", y));
    let mut y = vec![al[al.len() - 1]];
    y.extend_from_slice(x);
    v.push(("plus-one-front", y));
    v
}

struct Side<'a, A: Codec> {
    model: &'a [A],
    view: &'a SeqSlice<A>,
    fresh: Seq<A>,
    headed: Seq<A>,
    text: String,
}

impl<'a, A: Codec> Side<'a, A> {
    fn new(model: &'a [A], view: &'a SeqSlice<A>, ph: usize) -> Self {
        Side { model, view, fresh: build(model), headed: owned_headed(model, ph), text: show(model) }
    }
}

/// Every sequence-level `==` between the two sides, in both directions.
fn eq_all<A: SxK>(kind: &str, x: &Side<A>, y: &Side<A>, out: &mut Out) {
    let cn = A::CID.name();
    let want = codes(x.model) == codes(y.model);
    let (xs, ys) = (x.view, y.view);
    let (xf, yf) = (&x.fresh, &y.fresh);
    let (xh, yh) = (&x.headed, &y.headed);
    // (name, result) for every impl; the reference-to-reference forms go through std's `&A == &B`
    let r: Result<Vec<(&'static str, bool)>, String> = out.catch(|| {
        vec![
            ("SeqSlice==SeqSlice", *xs == *ys),
            ("&SeqSlice==&SeqSlice", xs == ys),
            ("&SeqSlice==SeqSlice", xs == *ys),
            ("SeqSlice==Seq", *xs == *yf),
            ("SeqSlice==Seq(headed)", *xs == *yh),
            ("&SeqSlice==Seq", xs == *yf),
            ("&SeqSlice==Seq(headed)", xs == *yh),
            ("Seq==SeqSlice", *xf == *ys),
            ("Seq(headed)==SeqSlice", *xh == *ys),
            ("Seq==&SeqSlice", *xf == ys),
            ("Seq(headed)==&SeqSlice", *xh == ys),
            ("Seq==Seq", *xf == *yf),
            ("Seq==Seq(headed)", *xf == *yh),
            ("Seq(headed)==Seq", *xh == *yf),
            ("Seq(headed)==Seq(headed)", *xh == *yh),
            ("&Seq==Seq", xf == *yf),
            ("&Seq==Seq(headed)", xf == *yh),
            ("Seq==&Seq", *xf == yf),
            ("Seq(headed)==&Seq", *xh == yf),
            ("&Seq==&Seq", xf == yf),
            ("&Seq(headed)==&Seq", xh == yf),
            ("SeqSlice==&str", *xs == y.text.as_str()),
            ("Seq(deref)==&str", **xh == y.text.as_str()),
            // `!=` must be the negation
            ("!(SeqSlice!=SeqSlice)", !(*xs != *ys)),
            ("!(Seq!=Seq(headed))", !(*xf != *yh)),
            ("!(Seq!=&SeqSlice)", !(*xf != ys)),
            ("!(SeqSlice!=&str)", !(*xs != y.text.as_str())),
        ]
    });
    match r {
        Err(m) => {
            out.checks += 1;
            out.violation(format!("{cn}/eq/panics"), format!("comparing {} with {} ({kind}) panicked: {m}", show_cut(x.model), show_cut(y.model)));
        }
        Ok(list) => {
            for (name, got) in list {
                out.check(got == want, || {
                    (
                        format!("{cn}/eq/{name}/{}", if want { "false-negative" } else { "false-positive" }),
                        format!("{name} on {} vs {} ({kind}) = {got}, contents are {}", show_cut(x.model), show_cut(y.model), if want { "equal" } else { "different" }),
                    )
                });
            }
        }
    }
}

/// k-mer representations of X (n == K fits) against Y in every available form.
fn kmer_eq<A: SxK>(kind: &str, x: &Side<A>, y: &Side<A>, out: &mut Out) {
    let cn = A::CID.name();
    let n = x.model.len();
    let want = codes(x.model) == codes(y.model);
    for sid in Sid::ALL {
        let Some(api) = kmer_api::<A>(sid, n) else { continue };
        let api = &*api;
        let sn = sid.name();
        out.stage = "Kmer::try_from(x)";
        let xv = match out.catch(|| api.try_from_slice(x.view)) {
            Ok(Ok(v)) => v,
            other => {
                out.violation(format!("{cn}/kmer<{sn}>/cannot-construct"), format!("Kmer<_,{n},{sn}>::try_from({}) = {:?}", show_cut(x.model), other));
                continue;
            }
        };
        out.dim("kmer_k", n as i64);
        let mut obs: Vec<(String, bool)> = Vec::new();
        out.stage = "Kmer == ...";
        let r = out.catch(|| {
            let (a, b) = api.eq_slice(xv, y.view);
            let mut o = vec![("Kmer==SeqSlice".to_string(), a), ("Kmer==&SeqSlice".to_string(), b)];
            let (a, b) = api.eq_slice(xv, &y.headed);
            o.push(("Kmer==SeqSlice(of headed Seq)".to_string(), a));
            o.push(("Kmer==&SeqSlice(of headed Seq)".to_string(), b));
            if let Some(e) = api.eq_seq(xv, &y.fresh) {
                o.push(("Kmer==Seq".to_string(), e));
            }
            if let Some(e) = api.eq_seq(xv, &y.headed) {
                o.push(("Kmer==Seq(headed)".to_string(), e));
            }
            if let Some(e) = api.eq_str(xv, &y.text) {
                o.push(("Kmer==&str".to_string(), e));
            }
            if y.model.len() == n {
                if let Some((a, b)) = api.eq_array1(xv, y.model) {
                    o.push(("Kmer==SeqArray".to_string(), a));
                    o.push(("Kmer==&SeqArray".to_string(), b));
                }
                if let Ok(yv) = api.try_from_slice(y.view) {
                    let (e, ne) = api.eq(xv, yv);
                    o.push(("Kmer==Kmer".to_string(), e));
                    o.push(("!(Kmer!=Kmer)".to_string(), !ne));
                    let (e, _) = api.eq(yv, xv);
                    o.push(("Kmer==Kmer(swapped)".to_string(), e));
                }
            }
            o
        });
        match r {
            Ok(o) => obs.extend(o),
            Err(m) => {
                out.checks += 1;
                out.violation(format!("{cn}/kmer<{sn}>-eq/panics"), format!("comparing Kmer {} with {} panicked: {m}", show_cut(x.model), show_cut(y.model)));
            }
        }
        for (name, got) in obs {
            out.check(got == want, || {
                (
                    format!("{cn}/eq/{name}<{sn}>/{}", if want { "false-negative" } else { "false-positive" }),
                    format!("{name} with Kmer<_,{n},{sn}> {} vs {} ({kind}) = {got}, contents are {}", show_cut(x.model), show_cut(y.model), if want { "equal" } else { "different" }),
                )
            });
        }
    }
}

/// Equal content => identical data fed to a hasher, whatever holds it.
fn hash_all<A: SxK>(x: &Side<A>, other_view: &SeqSlice<A>, out: &mut Out) {
    let cn = A::CID.name();
    let n = x.model.len();
    out.stage = "Hash";
    let r = out.catch(|| {
        let base = rec::stream(x.view);
        let mut v: Vec<(String, rec::Recorder)> = vec![
            ("&SeqSlice".into(), rec::stream(&x.view)),
            ("SeqSlice(other offset)".into(), rec::stream(other_view)),
            ("Seq".into(), rec::stream(&x.fresh)),
            ("&Seq".into(), rec::stream(&&x.fresh)),
            ("Seq(headed)".into(), rec::stream(&x.headed)),
            ("Seq(deref)".into(), rec::stream(&*x.headed)),
        ];
        for sid in Sid::ALL {
            if let Some(api) = kmer_api::<A>(sid, n) {
                if let Ok(xv) = api.try_from_slice(x.view) {
                    v.push((format!("Kmer<{}>", sid.name()), api.hash(xv)));
                }
            }
        }
        (base, v)
    });
    // text with a byte that is no symbol character of this codec equals no sequence (and comparing never panics)
    if !x.model.is_empty() {
        let sp = bsv::spec::spec(A::CID);
        let foreign: Vec<u8> = [b'N', b'n', b'x', b'U', b'-', b'*', b'@', b' ', 0u8, b'a', b'H', b'Z', b'0'].into_iter().filter(|b| sp.parse(*b).is_none() && A::try_from_ascii(*b).is_none()).collect();
        let r3 = out.catch(|| {
            let mut bad: Vec<String> = Vec::new();
            for p in [0usize, n / 2, n - 1] {
                for &b in &foreign {
                    let mut t = x.text.clone().into_bytes();
                    t[p] = b;
                    let Ok(t) = String::from_utf8(t) else { continue };
                    if *x.view == t.as_str() || *x.headed == t.as_str() {
                        bad.push(format!("== {t:?}"));
                    }
                    for sid in Sid::ALL {
                        if let Some(api) = kmer_api::<A>(sid, n) {
                            if let Ok(xv) = api.try_from_slice(x.view) {
                                if api.eq_str(xv, &t) == Some(true) {
                                    bad.push(format!("Kmer<{}> == {t:?}", sid.name()));
                                }
                            }
                        }
                    }
                }
            }
            bad
        });
        out.check(matches!(&r3, Ok(b) if b.is_empty()), || (format!("{cn}/eq/equals-text-of-another-alphabet"), format!("X = {}: {:?}", show_cut(x.model), r3)));
    }
    // containers of sequences hash through Hash::hash_slice / tuple impls: same content, same stream
    let r2 = out.catch(|| {
        let a = vec![x.fresh.clone(), x.headed.clone()];
        let b = vec![x.headed.clone(), x.fresh.clone()];
        let c: Vec<&SeqSlice<A>> = vec![x.view, other_view];
        let t1 = (x.fresh.clone(), 7u8, x.headed.clone());
        let t2 = (x.headed.clone(), 7u8, x.fresh.clone());
        let mut bad: Vec<&'static str> = Vec::new();
        if rec::stream(&a).bytes != rec::stream(&b).bytes || rec::stream(&a[..]).bytes != rec::stream(&b[..]).bytes {
            bad.push("Vec<Seq>");
        }
        if rec::stream(&a).bytes != rec::stream(&c).bytes {
            bad.push("Vec<&SeqSlice> vs Vec<Seq>");
        }
        if rec::stream(&t1).bytes != rec::stream(&t2).bytes {
            bad.push("(Seq, u8, Seq)");
        }
        for sid in Sid::ALL {
            if let Some(api) = kmer_api::<A>(sid, n) {
                if let Ok(xv) = api.try_from_slice(x.view) {
                    if api.hash_pair(xv, xv).bytes != rec::stream(&a).bytes {
                        bad.push("[Kmer; 2] vs Vec<Seq>");
                    }
                }
            }
        }
        // Borrow, AsRef and Deref of an owned sequence are the same slice
        let b1: &SeqSlice<A> = std::borrow::Borrow::borrow(&x.headed);
        let b2: &SeqSlice<A> = x.headed.as_ref();
        let b3: &SeqSlice<A> = &x.headed;
        let href: &Seq<A> = &x.headed;
        let b4: &SeqSlice<A> = std::borrow::Borrow::borrow(&href);
        let b5: &SeqSlice<A> = x.view.as_ref();
        if !(matches(b1, x.model) && matches(b2, x.model) && matches(b3, x.model) && matches(b4, x.model) && matches(b5, x.model)) {
            bad.push("Borrow/AsRef/Deref disagree");
        }
        bad
    });
    out.check(matches!(&r2, Ok(b) if b.is_empty()), || (format!("{cn}/hash/containers-of-equal-sequences-hash-differently"), format!("X = {}: {:?}", show_cut(x.model), r2)));
    match r {
        Err(m) => {
            out.checks += 1;
            out.violation(format!("{cn}/hash/panics"), format!("hashing {} panicked: {m}", show_cut(x.model)));
        }
        Ok((base, v)) => {
            for (name, s) in v {
                out.check(s.bytes == base.bytes, || {
                    (
                        format!("{cn}/hash/{name}-feeds-different-data-than-SeqSlice"),
                        format!(
                            "{name} holding {} feeds {} bytes to the hasher, the slice with the same content feeds {} bytes (first difference at byte {:?})",
                            show_cut(x.model),
                            s.bytes.len(),
                            base.bytes.len(),
                            s.bytes.iter().zip(&base.bytes).position(|(a, b)| a != b)
                        ),
                    )
                });
                // "any hasher": a word-at-a-time hasher (Fx-style) folds write(&[a, b]) and write_u8(a); write_u8(b)
                // differently, so equal values must also make the same sequence of write_* calls
                out.check(s.bytes != base.bytes || s.calls == base.calls, || {
                    (
                        format!("{cn}/hash/{name}-makes-different-write-calls-than-SeqSlice"),
                        format!("{name} holding {} feeds the same {} bytes as the equal slice but through a different sequence of Hasher::write_* calls ({} vs {} call records)", show_cut(x.model), s.bytes.len(), s.calls.len(), base.calls.len()),
                    )
                });
            }
        }
    }
}

fn run_g<A: SxK>(c: &Case, out: &mut Out) {
    let cn = A::CID.name();
    let m = alphabet::<A>().len();
    let nof = noff(A::BITS as usize);
    match c {
        Case::Pair { n, s1, s2, .. } => {
            let (n, s1, s2) = (*n, *s1, *s2);
            let xm: Vec<A> = syms::<A>(&bg(n, m, 100, out.seed));
            let px = place(&xm, s1, 0);
            let x = Side::new(&xm, px.view(), s1.max(1));
            out.dim("len", n as i64);
            out.dim("offset_pair", (s1 * nof + s2) as i64);
            let px2 = place(&xm, s2, 1);
            hash_all::<A>(&x, px2.view(), out);
            let vs = variants::<A>(&xm);
            // map / set lookups: owned keys found by borrowed slices with the same content, at this offset pair
            out.stage = "HashMap<Seq,_>::get(&SeqSlice)";
            let r = out.catch(|| {
                let mut map: HashMap<Seq<A>, usize, Fixed> = HashMap::default();
                let mut distinct: Vec<Vec<u8>> = Vec::new();
                for (_, y) in &vs {
                    let cy = codes(y);
                    if !distinct.contains(&cy) {
                        map.insert(owned_headed(y, s2), distinct.len());
                        distinct.push(cy);
                    }
                }
                let mut bad: Vec<String> = Vec::new();
                if map.len() != distinct.len() {
                    bad.push(format!("{} distinct contents gave {} keys", distinct.len(), map.len()));
                }
                for (i, cy) in distinct.iter().enumerate() {
                    let y: Vec<A> = vs.iter().find(|(_, y)| codes(y) == *cy).unwrap().1.clone();
                    let py = place(&y, s1, 2);
                    if map.get(py.view()) != Some(&i) {
                        bad.push(format!("key {} not found by the slice with the same content", show_cut(&y)));
                    }
                }
                // Borrow<SeqSlice<A>> for &Seq<A>: a map keyed by references
                let owned: Vec<Seq<A>> = distinct.iter().map(|cy| build(&vs.iter().find(|(_, y)| codes(y) == *cy).unwrap().1)).collect();
                let by_ref: HashMap<&Seq<A>, usize, Fixed> = owned.iter().enumerate().map(|(i, s)| (s, i)).collect();
                for (i, cy) in distinct.iter().enumerate() {
                    let y: Vec<A> = vs.iter().find(|(_, y)| codes(y) == *cy).unwrap().1.clone();
                    let py = place(&y, s2, 2);
                    if by_ref.get(py.view()) != Some(&i) {
                        bad.push(format!("&Seq key {} not found by the slice with the same content", show_cut(&y)));
                    }
                }
                let set: HashSet<Seq<A>, Fixed> = vs.iter().map(|(_, y)| build(y)).collect();
                if set.len() != distinct.len() {
                    bad.push(format!("HashSet of {} distinct contents has {} members", distinct.len(), set.len()));
                }
                bad
            });
            out.check(matches!(&r, Ok(b) if b.is_empty()), || (format!("{cn}/hashmap/lookup-by-content-fails"), format!("X = {} offsets {s1}/{s2}: {:?}", show_cut(&xm), r)));
            // k-mers as set members
            for sid in Sid::ALL {
                if let Some(api) = kmer_api::<A>(sid, n) {
                    let r = out.catch(|| {
                        let mut sips: HashMap<u128, u64> = HashMap::new();
                        let mut bad = Vec::new();
                        for (_, y) in vs.iter().filter(|(_, y)| y.len() == n) {
                            let py = place(y, s2, 0);
                            if let Ok(v) = api.try_from_slice(py.view()) {
                                let h = api.sip(v);
                                let py1 = place(y, s1, 1);
                                if let Ok(v1) = api.try_from_slice(py1.view()) {
                                    if v1 != v || api.sip(v1) != h || api.eq(v, v1) != (true, false) {
                                        bad.push(format!("k-mer of {} differs between slice offsets {s1} and {s2}: {v:#x} vs {v1:#x}", show_cut(y)));
                                    }
                                }
                                sips.insert(v, h);
                            }
                        }
                        bad
                    });
                    out.check(matches!(&r, Ok(b) if b.is_empty()), || (format!("{cn}/kmer<{}>/value-depends-on-source-offset", sid.name()), format!("{:?}", r)));
                }
            }
            for (kind, ym) in &vs {
                out.units += 1;
                let py = place(ym, s2, 1);
                let y = Side::new(ym, py.view(), s2.max(1));
                eq_all::<A>(kind, &x, &y, out);
                eq_all::<A>(kind, &y, &x, out);
                kmer_eq::<A>(kind, &x, &y, out);
                if ym.len() != n || *kind != "equal" {
                    kmer_eq::<A>(kind, &y, &x, out);
                }
                out.observe(&(A::CID, n, *kind));
            }
        }
        Case::Alias { n, .. } => {
            // a parent over two symbols only, so that many windows have equal content
            let al = alphabet::<A>();
            let plen = 2 * (64 / A::BITS as usize) + *n + 3;
            let pm: Vec<A> = bg(plen, 2, 102, out.seed).iter().map(|&i| al[i as usize * (al.len() - 1)]).collect();
            let parent = build(&pm);
            let headed = owned_headed(&pm, 3);
            for a in 0..=plen - *n {
                for dn in [0usize, 1] {
                    for b in 0..=plen.saturating_sub(*n + dn) {
                        out.units += 1;
                        let (xm, ym) = (&pm[a..a + *n], &pm[b..b + *n + dn]);
                        let want = codes(xm) == codes(ym);
                        out.stage = "== between windows of one buffer";
                        let r = out.catch(|| {
                            let (xs, ys) = (&parent[a..a + *n], &parent[b..b + *n + dn]);
                            let (hx, hy) = (&headed[a..a + *n], &headed[b..b + *n + dn]);
                            vec![
                                ("SeqSlice==SeqSlice", *xs == *ys),
                                ("&SeqSlice==&SeqSlice", xs == ys),
                                ("&SeqSlice==SeqSlice", xs == *ys),
                                ("SeqSlice==Seq(parent)", *xs == parent && a == 0 && *n == plen || *xs == *ys),
                                ("slices of a headed parent", *hx == *hy),
                                ("slice of parent vs slice of headed copy", *xs == *hy),
                                ("!(SeqSlice!=SeqSlice)", !(*xs != *ys)),
                                ("SeqSlice==&str", *xs == show(ym).as_str()),
                                ("hash streams equal", (rec::stream(xs).bytes == rec::stream(ys).bytes) || !want),
                            ]
                        });
                        match r {
                            Err(msg) => out.violation(format!("{cn}/eq-alias/panics"), msg),
                            Ok(list) => {
                                for (name, got) in list {
                                    let w = if name == "hash streams equal" { true } else { want };
                                    out.check(got == w, || {
                                        (
                                            format!("{cn}/eq-alias/{name}/{}", if w { "false-negative" } else { "false-positive" }),
                                            format!("windows [{a}..{}] and [{b}..{}] of one buffer {}: {name} = {got}, contents {} vs {}", a + *n, b + *n + dn, show_cut(&pm), show_cut(xm), show_cut(ym)),
                                        )
                                    });
                                }
                            }
                        }
                    }
                }
            }
            out.observe(&(A::CID, *n, 254u8));
        }
        Case::Array { n, .. } => {
            let xm: Vec<A> = syms::<A>(&bg(*n, m, 101, out.seed));
            macro_rules! arr {
                ($($k:literal),*) => { match *n { $($k => { let a: SeqArray<A, $k, 3> = array_of(&xm); array_side::<A>(&a, &xm, out) })* _ => out.violation("MACHINERY/array-n", format!("{n}")) } };
            }
            arr!(0, 1, 2, 3, 4, 8, 10, 12, 16, 21, 24, 32, 33, 64);
        }
    }
}

/// the static array as left and right operand (through Deref / AsRef), against every variant at a few offsets
fn array_side<A: SxK>(xv: &SeqSlice<A>, xm: &[A], out: &mut Out) {
    let nof = noff(A::BITS as usize);
    let x = Side::new(xm, xv, 1);
    let px = place(xm, nof - 1, 0);
    hash_all::<A>(&x, px.view(), out);
    for (kind, ym) in &variants::<A>(xm) {
        for s2 in [0usize, 1, nof - 1] {
            out.units += 1;
            let py = place(ym, s2, 1);
            let y = Side::new(ym, py.view(), s2.max(1));
            eq_all::<A>(kind, &x, &y, out);
            eq_all::<A>(kind, &y, &x, out);
            kmer_eq::<A>(kind, &y, &x, out);
        }
    }
    out.observe(&(A::CID, xm.len(), 255u8));
}

fn main() {
    main_loop("C02", gen, run, |_| {
        json!({
            "representations": ["Seq (fresh)", "Seq whose bit vector has a non-zero head", "&Seq", "SeqSlice at every bit offset", "&SeqSlice", "SeqArray (Deref/AsRef)", "Kmer over usize/u64/u128 for every K in the tier's set", "&str (displayed text)"],
            "impls": "every PartialEq impl of seq.rs, seq/slice.rs, kmer.rs in both operand orders, std's &A == &B, and != for a subset",
            "hash_oracle": "recorded byte stream fed to the Hasher, compared between representations (never with a constant); HashMap<Seq,_>::get(&SeqSlice), HashSet<Seq>",
            "variants_of_X": ["equal", "one symbol changed at every position", "proper prefix", "proper suffix", "one symbol longer (back / front)", "empty"],
        })
    });
}
