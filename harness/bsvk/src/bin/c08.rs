//! C08 — k-mer iteration and construction reproduce the sequence's windows
//! exactly; wrong lengths and invalid text are errors, never a truncated or
//! padded k-mer.

use bsv::fixture::*;
use bsv::model::pack_u128;
use bsv::*;
use bsvk::*;
use serde::{Deserialize, Serialize};
use serde_json::json;

#[derive(Serialize, Deserialize, Hash, Clone, Debug)]
enum Case {
    /// one k-mer type: construction from slices/strings of every relevant length at every offset
    Construct { cid: Cid, sid: Sid, k: usize },
    /// usize-backed: kmers::<K>() against windows(K) and the model, for sequences of length n at offset s
    Iterate { cid: Cid, k: usize, n: usize, s: usize },
    /// usize-backed: iterator protocol of kmers::<K>()
    Protocol { cid: Cid, k: usize, n: usize },
    /// two k-mer types used one after the other on the same thread: text -> k-mer -> text for a, b, a, b
    /// (anything cached between calls and keyed by too little shows here)
    Interleave { a: (Cid, Sid, usize), b: (Cid, Sid, usize) },
}

fn kinds() -> Vec<(Cid, Sid, usize)> {
    let mut v = Vec::new();
    for cid in Cid::ALL {
        v.push((cid, Sid::Usize, 2));
        v.push((cid, Sid::Usize, 3));
        v.push((cid, Sid::U128, 3));
        v.push((cid, Sid::U64, 64 / cid.bits()));
    }
    v
}

fn kind_roundtrip<A: SxK>(sid: Sid, k: usize, salt: usize, out: &mut Out) {
    let cn = A::CID.name();
    let sn = sid.name();
    let al = alphabet::<A>();
    let Some(api) = kmer_api::<A>(sid, k) else {
        out.violation("MACHINERY/k-does-not-fit", format!("{:?} {sid:?} {k}", A::CID));
        return;
    };
    let content: Vec<A> = (0..k).map(|i| al[(i * 5 + salt) % al.len()]).collect();
    let want = pack_u128(&codes(&content), A::BITS as usize);
    let text = show(&content);
    out.stage = "interleaved Kmer::from_str";
    let f = out.catch(|| api.from_str(&text));
    out.check(matches!(&f, Ok(Ok(x)) if *x == want), || {
        (format!("{cn}/kmer<{sn}>/from_str-wrong-kmer-after-another-type"), format!("Kmer<_,{k},{sn}>::from_str({text:?}) = {:x?}, want {want:#x}", f))
    });
    out.stage = "interleaved Kmer Display";
    let d = out.catch(|| api.display(want));
    out.check(d.as_deref() == Ok(text.as_str()), || {
        (format!("{cn}/kmer<{sn}>/display-wrong-after-another-type"), format!("Kmer<_,{k},{sn}> {want:#x} displays as {:?}, want {text:?}", d))
    });
}

fn gen(t: Tier, _seed: u64, emit: &mut dyn FnMut(Case)) {
    for a in kinds() {
        for b in kinds() {
            emit(Case::Interleave { a, b });
        }
    }
    for cid in Cid::ALL {
        let bits = cid.bits();
        let spw = 64 / bits;
        let nof = noff(bits);
        for sid in Sid::ALL {
            for k in k_set(cid, sid, t.thorough()) {
                emit(Case::Construct { cid, sid, k });
            }
        }
        for n in long_lengths(bits).into_iter().chain(huge_lengths(bits).into_iter().filter(|n| *n <= 17000).step_by(3)) {
            for k in [1usize, spw.max(2) - 1, spw] {
                emit(Case::Iterate { cid, k, n, s: n % 2 });
            }
        }
        for k in k_set(cid, Sid::Usize, t.thorough()) {
            let mut ns = vec![0, k - 1, k, k + 1, k + 2, k + spw + 1, 2 * k + 1];
            ns.sort();
            ns.dedup();
            for n in ns {
                for s in 0..nof {
                    if t.thorough() || s < 4 || s + 2 >= nof || s == nof / 2 {
                        emit(Case::Iterate { cid, k, n, s });
                    }
                }
                emit(Case::Protocol { cid, k, n });
            }
        }
    }
}

fn run(c: &Case, out: &mut Out) {
    match c {
        Case::Interleave { a, b } => {
            for salt in 0..3 {
                bsvk::dispatch_k!(a.0, kind_roundtrip(a.1, a.2, salt, out));
                bsvk::dispatch_k!(b.0, kind_roundtrip(b.1, b.2, salt + 1, out));
            }
            out.observe(&(a, b));
        }
        Case::Construct { cid, .. } | Case::Iterate { cid, .. } | Case::Protocol { cid, .. } => bsvk::dispatch_k!(*cid, run_g(c, out)),
    }
}

fn contents<A: Sx>(k: usize, out: &mut Out) -> Vec<Vec<A>> {
    let m = alphabet::<A>().len();
    let mut list: Vec<Vec<u8>> = Vec::new();
    if (m as f64).powi(k as i32) <= 4096.0 {
        all_seqs(k, m, &mut |v| list.push(v.to_vec()));
    } else {
        pfamily(k, m, out.seed, &mut |v| list.push(v.to_vec()));
    }
    list.iter().map(|v| syms::<A>(v)).collect()
}

fn run_g<A: SxK>(c: &Case, out: &mut Out) {
    let cn = A::CID.name();
    let bits = A::BITS as usize;
    let nof = noff(bits);
    let al = alphabet::<A>();
    let m = al.len();
    match c {
        Case::Interleave { .. } => unreachable!(),
        Case::Construct { sid, k, .. } => {
            let (sid, k) = (*sid, *k);
            let sn = sid.name();
            let Some(api) = kmer_api::<A>(sid, k) else {
                out.violation("MACHINERY/k-does-not-fit", format!("{:?} {sid:?} {k}", A::CID));
                return;
            };
            let api = &*api;
            out.dim("k", k as i64);
            for content in contents::<A>(k, out) {
                out.units += 1;
                let want = pack_u128(&codes(&content), bits);
                let text = show(&content);
                let s = (want as usize).wrapping_mul(11) % nof;
                let pl = place(&content, s, 0);
                out.stage = "Kmer::try_from(&SeqSlice)";
                let v = out.catch(|| api.try_from_slice(pl.view()));
                let ok = matches!(&v, Ok(Ok(x)) if *x == want);
                out.check(ok, || (format!("{cn}/kmer<{sn}>/try_from-slice-wrong-kmer"), format!("Kmer<_,{k},{sn}>::try_from({text} at offset {s}) = {:x?}, want {want:#x}", v)));
                out.stage = "Kmer::unsafe_from_seqslice";
                let u = out.catch(|| api.unsafe_from_seqslice(pl.view()));
                out.check(u == Ok(want), || (format!("{cn}/kmer<{sn}>/unsafe_from_seqslice-wrong-kmer"), format!("unsafe_from_seqslice({text}) = {:x?}, want {want:#x}", u)));
                out.stage = "Kmer::from_str";
                let f = out.catch(|| api.from_str(&text));
                out.check(matches!(&f, Ok(Ok(x)) if *x == want), || (format!("{cn}/kmer<{sn}>/from_str-wrong-kmer"), format!("Kmer<_,{k},{sn}>::from_str({text:?}) = {:x?}, want {want:#x}", f)));
                // the text must be exactly K symbol characters: terminators and padding are not tolerated
                if (want as usize) % 4 == 0 || k <= 3 {
                    for (pre, post) in [("", "\n"), ("", "\r\n"), ("", "\r"), ("", " "), (" ", ""), ("\n", ""), ("", "\t"), ("", "\0")] {
                        let t = format!("{pre}{text}{post}");
                        let f = out.catch(|| api.from_str(&t));
                        out.check(matches!(&f, Ok(Err(_))), || {
                            (format!("{cn}/kmer<{sn}>/from_str-accepts-padded-text"), format!("Kmer<_,{k},{sn}>::from_str({t:?}) = {:x?}, expected an error", f))
                        });
                    }
                }
                out.stage = "Kmer display/len";
                let d = out.catch(|| (api.display(want), api.len(want)));
                out.check(matches!(&d, Ok((t, (l, e))) if *t == text && *l == k && !*e), || {
                    (format!("{cn}/kmer<{sn}>/display-or-len-wrong"), format!("k-mer of {text}: display/len/is_empty = {:?}", d))
                });
                // a write that failed earlier (on this thread) leaves nothing behind
                out.stage = "Kmer display after a failed write";
                let other = pack_u128(&codes(&content.iter().rev().copied().collect::<Vec<A>>()), bits);
                let da = out.catch(|| api.display_after_failed_write(other, want));
                out.check(da.as_deref() == Ok(text.as_str()), || {
                    (format!("{cn}/kmer<{sn}>/display-after-a-failed-write-is-wrong"), format!("after formatting another k-mer into a sink that failed, {text} displays as {:?}", da))
                });
                // width / alignment flags pad the whole k-mer (or are ignored); they never break it up
                out.stage = "Kmer display with width flags";
                let pd = out.catch(|| api.display_padded(want, k + 3));
                let okp = matches!(&pd, Ok(s) if s.split('|').count() == 3 && s.split('|').all(|part| part.trim() == text));
                out.check(okp, || (format!("{cn}/kmer<{sn}>/display-with-width-flags-breaks-up-the-text"), format!("k-mer {text} formatted with width {}: {:?}", k + 3, pd)));
                if sid == Sid::Usize {
                    out.stage = "Kmer Deref/AsRef/Seq::from/== &str/TryFrom<Seq>";
                    let r = out.catch(|| {
                        let (a, b) = api.deref(want).unwrap();
                        let sq = api.into_seq(want).unwrap();
                        let other = if text.len() > 0 { format!("{}{}", &text[1..], al[(al.iter().position(|x| *x == content[0]).unwrap() + 1) % m].to_char()) } else { String::new() };
                        (
                            a == content,
                            b == content,
                            matches(&sq, &content),
                            api.eq_str(want, &text) == Some(true),
                            m < 2 || other == text || api.eq_str(want, &other) == Some(false),
                            api.try_from_seq(build(&content)).map(|r| r.ok()) == Some(Some(want)),
                            api.try_from_seq(owned_headed(&content, s.max(1))).map(|r| r.ok()) == Some(Some(want)),
                        )
                    });
                    out.check(r == Ok((true, true, true, true, true, true, true)), || {
                        (
                            format!("{cn}/kmer<usize>/deref-asref-intoseq-eqstr-tryfromseq-wrong"),
                            format!("k-mer of {text}: (Deref, AsRef, Seq::from, == own text, != other text, TryFrom<Seq>, TryFrom<headed Seq>) = {:?}", r),
                        )
                    });
                }
                out.observe(&(A::CID, k, want as u64 & 0xfff));
            }
            // wrong lengths are errors, never a truncated or padded k-mer
            let spw = 64 / bits;
            for n in [0usize, k - 1, k + 1, k + 2, 2 * k, k + spw] {
                if n == k {
                    continue;
                }
                for s in [0usize, 1, nof / 2 + 1, nof - 1] {
                    out.units += 1;
                    let content = syms::<A>(&bg(n, m, 110 + s as u64, out.seed));
                    let pl = place(&content, s, 0);
                    out.stage = "Kmer::try_from(&slice of the wrong length)";
                    let v = out.catch(|| api.try_from_slice(pl.view()));
                    // (the property asks for an error; which variant is reported is not pinned down)
                    out.check(matches!(&v, Ok(Err(_))), || {
                        (
                            format!("{cn}/kmer<{sn}>/wrong-length-slice-not-refused"),
                            format!("Kmer<_,{k},{sn}>::try_from(slice of {n} symbols at offset {s}) = {:x?}, expected Err(MismatchedLength)", v),
                        )
                    });
                    out.stage = "Kmer::from_str(wrong length)";
                    let f = out.catch(|| api.from_str(&show(&content)));
                    out.check(matches!(&f, Ok(Err(_))), || {
                        (
                            format!("{cn}/kmer<{sn}>/wrong-length-text-not-refused"),
                            format!("Kmer<_,{k},{sn}>::from_str(text of {n} symbols) = {:x?}, expected Err(MismatchedLength)", f),
                        )
                    });
                    if sid == Sid::Usize {
                        let q = out.catch(|| api.try_from_seq(build(&content)));
                        out.check(matches!(&q, Ok(Some(Err(_)))), || {
                            (format!("{cn}/kmer<usize>/wrong-length-seq-not-refused"), format!("Kmer<_,{k}>::try_from(Seq of {n} symbols) = {:x?}", q))
                        });
                    }
                }
            }
            // invalid text of length K
            let sp = bsv::spec::spec(A::CID);
            let badb: u8 = [b'x', b'@', b'1', b'Z'].into_iter().find(|b| sp.parse(*b).is_none() && A::try_from_ascii(*b).is_none()).unwrap_or(b'@');
            let base = syms::<A>(&bg(k, m, 111, out.seed));
            for p in [0usize, k / 2, k - 1] {
                let mut t = show(&base).into_bytes();
                t[p] = badb;
                let t = String::from_utf8(t).unwrap();
                out.stage = "Kmer::from_str(invalid text)";
                let f = out.catch(|| api.from_str(&t));
                out.check(matches!(&f, Ok(Err(_))), || {
                    (format!("{cn}/kmer<{sn}>/invalid-text-not-refused"), format!("Kmer<_,{k},{sn}>::from_str({t:?}) = {:x?}, expected Err(UnrecognisedBase({badb:#x}))", f))
                });
            }
        }
        Case::Iterate { k, n, s, .. } => {
            let (k, n, s) = (*k, *n, *s);
            let Some(api) = kmer_api::<A>(Sid::Usize, k) else { return };
            let api = &*api;
            out.units += 1;
            out.dim("k", k as i64);
            out.dim("n_minus_k", n as i64 - k as i64);
            out.dim("view_bit_offset", ((s * bits) % 64) as i64);
            for variant in 0..2u64 {
                let content = syms::<A>(&bg(n, m, 112 + variant + 7 * s as u64, out.seed));
                let pl = if variant == 0 { place(&content, s, 0) } else { place_headed(&content, s, 0, nof / 2 + 1) };
                let v = pl.view();
                let want: Vec<u128> = if n >= k { (0..=n - k).map(|i| pack_u128(&codes(&content[i..i + k]), bits)).collect() } else { vec![] };
                out.stage = "kmers::<K>()";
                let got = out.catch(|| api.kmers(v, n + 5).unwrap());
                out.check(got.as_ref().ok() == Some(&want), || {
                    (
                        format!("{cn}/kmers/wrong-items"),
                        format!(
                            "kmers::<{k}>() over {} (len {n}, offset {s}): {:?} items (want {}), first differing index {:?}",
                            show_cut(&content),
                            got.as_ref().map(|g| g.len()),
                            want.len(),
                            got.as_ref().ok().and_then(|g| g.iter().zip(&want).position(|(a, b)| a != b))
                        ),
                    )
                });
                // identical to the overlapping-windows iterator of width K
                out.stage = "windows(K) vs kmers::<K>()";
                let w = out.catch(|| v.windows(k).take(n + 5).map(|x| (read(x), api.try_from_slice(x).ok())).collect::<Vec<_>>());
                let ok = match (&w, &got) {
                    (Ok(w), Ok(g)) => w.len() == g.len() && w.iter().zip(g).enumerate().all(|(i, ((syms, kv), gv))| syms[..] == content[i..i + k] && *kv == Some(*gv)),
                    _ => false,
                };
                out.check(ok, || (format!("{cn}/kmers/differs-from-windows"), format!("kmers::<{k}>() and windows({k}) over {} (offset {s}) disagree", show_cut(&content))));
                // each k-mer displays as its window
                if let Ok(g) = &got {
                    for (i, kv) in g.iter().enumerate().take(3).chain(g.iter().enumerate().skip(g.len().saturating_sub(2))) {
                        let d = out.catch(|| api.display(*kv));
                        out.check(d.as_deref() == Ok(show(&content[i..i + k]).as_str()), || {
                            (format!("{cn}/kmers/item-displays-wrong"), format!("{i}-th {k}-mer of {} displays {:?}", show_cut(&content), d))
                        });
                    }
                }
                out.observe(&(A::CID, k, n, want.len()));
            }
        }
        Case::Protocol { k, n, .. } => {
            let (k, n) = (*k, *n);
            let Some(api) = kmer_api::<A>(Sid::Usize, k) else { return };
            let api = &*api;
            let content = syms::<A>(&bg(n, m, 113, out.seed));
            let pl = place(&content, 1, 0);
            let v = pl.view();
            let model: Vec<u128> = if n >= k { (0..=n - k).map(|i| pack_u128(&codes(&content[i..i + k]), bits)).collect() } else { vec![] };
            let id = |x: u128| x;
            out.stage = "iterator protocol of kmers::<K>()";
            let t = bsv::iterproto::explore(
                &format!("{cn}/kmers"),
                &format!("kmers::<{k}>() over {} (len {n})", show_cut(&content)),
                &|| api.kmers_iter(v).unwrap(),
                &id,
                &model,
                if model.len() <= 12 { 2 } else { 1 },
                out,
            );
            out.count("protocol traces", t);
        }
    }
}

fn main() {
    main_loop("C08", gen, run, |_| {
        json!({
            "construction": ["Kmer::try_from(&SeqSlice) at a content-dependent offset", "unsafe_from_seqslice", "from_str", "Display", "len/is_empty", "Deref", "AsRef", "Seq::from(kmer)", "kmer == &str", "TryFrom<Seq> (fresh and headed)"],
            "wrong_lengths": "n in {0, K-1, K+1, K+2, 2K, K+spw} at 4 offsets -> Err(MismatchedLength); invalid character at 3 positions -> Err(UnrecognisedBase)",
            "iteration": "kmers::<K>() vs model windows and vs windows(K), sequences of length {0, K-1, K, K+1, K+2, K+spw+1, 2K+1}, plain and headed parents; iterator protocol (next/nth/count/last/size_hint/skip/step_by)",
            "contents": "all |alphabet|^K <= 4096, else the P(K) family",
        })
    });
}
