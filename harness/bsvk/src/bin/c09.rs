//! C09 — k-mer operations agree with the same operation on the equivalent
//! sequence, and results stay in canonical form (integer < 2^(K*BITS)).
//! Explicit-state part: for small K the state space is *all* k-mers and every
//! transition (rotate, push, reverse, complement) out of every state is executed.

use bsv::explore::{bfs, System};
use bsv::fixture::*;
use bsv::model::*;
use bsv::run::catch;
use bsv::*;
use bsvk::*;
use serde::{Deserialize, Serialize};
use serde_json::json;

#[derive(Serialize, Deserialize, Hash, Clone, Debug)]
enum Case {
    /// E1: all k-mers of one type as a state graph
    Graph { cid: Cid, sid: Sid, k: usize },
    /// E2: pattern family, rotation counts, depth-2 chains for one type
    Family { cid: Cid, sid: Sid, k: usize },
}

fn graph_bound(t: Tier) -> f64 {
    t.pick(256.0, 4096.0)
}

fn gen(t: Tier, _seed: u64, emit: &mut dyn FnMut(Case)) {
    for cid in Cid::ALL {
        let m = bsv::spec::spec(cid).syms.len() as f64;
        for sid in Sid::ALL {
            for k in 1..=max_k(cid, sid) {
                if m.powi(k as i32) <= graph_bound(t) {
                    emit(Case::Graph { cid, sid, k });
                }
            }
            for k in k_set(cid, sid, t.thorough()) {
                emit(Case::Family { cid, sid, k });
            }
        }
    }
}

fn run(c: &Case, out: &mut Out) {
    match c {
        Case::Graph { cid, .. } | Case::Family { cid, .. } => bsvk::dispatch_k!(*cid, run_g(c, out)),
    }
}

#[derive(Clone, Debug)]
enum Op {
    RotL(u32),
    RotR(u32),
    PushL(u8),
    PushR(u8),
    Rev,
    RevInPlace,
    Comp,
    CompInPlace,
    RevComp,
    RevCompInPlace,
}

/// the same operation on the list of symbols
fn model_op<A: Sx>(v: &[A], op: &Op, al: &[A]) -> Vec<A> {
    let k = v.len();
    match op {
        Op::RotL(n) => rotl(v, *n as usize % k),
        Op::RotR(n) => rotr(v, *n as usize % k),
        Op::PushR(x) => {
            let mut r = v[1..].to_vec();
            r.push(al[*x as usize]);
            r
        }
        Op::PushL(x) => {
            let mut r = vec![al[*x as usize]];
            r.extend_from_slice(&v[..k - 1]);
            r
        }
        Op::Rev | Op::RevInPlace => v.iter().rev().copied().collect(),
        Op::Comp | Op::CompInPlace => v.iter().map(|a| a.comp1().unwrap()).collect(),
        Op::RevComp | Op::RevCompInPlace => v.iter().rev().map(|a| a.comp1().unwrap()).collect(),
    }
}

fn real_op<A: SxK>(api: &dyn KmerApi<A>, v: u128, op: &Op, al: &[A]) -> Option<u128> {
    Some(match op {
        Op::RotL(n) => api.rotated_left(v, *n),
        Op::RotR(n) => api.rotated_right(v, *n),
        Op::PushL(x) => api.pushl(v, al[*x as usize]),
        Op::PushR(x) => api.pushr(v, al[*x as usize]),
        Op::Rev => api.to_rev(v)?.0,
        Op::RevInPlace => api.to_rev(v)?.1,
        Op::Comp => api.comp(v)?[0],
        Op::CompInPlace => api.comp(v)?[1],
        Op::RevComp => api.comp(v)?[2],
        Op::RevCompInPlace => api.comp(v)?[3],
    })
}

fn opname(op: &Op) -> &'static str {
    match op {
        Op::RotL(_) => "rotated_left",
        Op::RotR(_) => "rotated_right",
        Op::PushL(_) => "pushl",
        Op::PushR(_) => "pushr",
        Op::Rev => "to_rev",
        Op::RevInPlace => "rev",
        Op::Comp => "to_comp",
        Op::CompInPlace => "comp",
        Op::RevComp => "to_revcomp",
        Op::RevCompInPlace => "revcomp",
    }
}

fn unary_ops<A: SxK>(api: &dyn KmerApi<A>) -> Vec<Op> {
    let mut v = Vec::new();
    if api.to_rev(0).is_some() {
        v.push(Op::Rev);
        v.push(Op::RevInPlace);
    }
    if api.comp(0).is_some() {
        v.extend([Op::Comp, Op::CompInPlace, Op::RevComp, Op::RevCompInPlace]);
    }
    v
}

/// execute `op` on the real k-mer and on the list; compare; check canonical form
fn step_check<A: SxK>(api: &dyn KmerApi<A>, v: u128, list: &[A], op: &Op, al: &[A], out: &mut Out) -> Result<Option<(u128, Vec<A>)>, (String, String)> {
    let cn = A::CID.name();
    let sn = api.sid().name();
    let k = api.k();
    let bits = A::BITS as usize;
    let name = opname(op);
    out.checks += 1;
    let got = match catch(|| real_op(api, v, op, al)) {
        Ok(Some(g)) => g,
        Ok(None) => return Ok(None),
        Err(m) => return Err((format!("{cn}/kmer<{sn}>.{name}/panics"), format!("{op:?} on {} (K={k}) panicked: {m}", show(list)))),
    };
    let want_list = model_op(list, op, al);
    let want = pack_u128(&codes(&want_list), bits);
    let kb = k * bits;
    if kb < 128 && got >> kb != 0 {
        return Err((
            format!("{cn}/kmer<{sn}>.{name}/result-not-canonical"),
            format!("{op:?} on {} (K={k}) gives integer {got:#x} with bits set at or above bit {kb}", show(list)),
        ));
    }
    if got != want {
        let shown = catch(|| api.display(got)).unwrap_or_else(|m| format!("<display panicked: {m}>"));
        return Err((
            format!("{cn}/kmer<{sn}>.{name}/differs-from-sequence-operation"),
            format!("{op:?} on {} (K={k}, {sn}) gives {shown} ({got:#x}); the same operation on the sequence gives {} ({want:#x})", show(list), show(&want_list)),
        ));
    }
    Ok(Some((got, want_list)))
}

struct Graph<'a, A: SxK> {
    api: &'a dyn KmerApi<A>,
    al: Vec<A>,
    ops: Vec<Op>,
}

impl<A: SxK> System for Graph<'_, A> {
    type State = (u128, Vec<A>);
    type Key = u128;
    type Op = Op;
    fn key(&self, s: &Self::State) -> u128 {
        s.0
    }
    fn ops(&self, _s: &Self::State) -> Vec<Op> {
        self.ops.clone()
    }
    fn step(&self, s: &Self::State, op: &Op, out: &mut Out) -> Result<Option<Self::State>, (String, String)> {
        out.count(opname(op), 1);
        step_check(self.api, s.0, &s.1, op, &self.al, out)
    }
}

fn run_g<A: SxK>(c: &Case, out: &mut Out) {
    let cn = A::CID.name();
    let al = alphabet::<A>();
    let m = al.len();
    let bits = A::BITS as usize;
    match c {
        Case::Graph { sid, k, .. } => {
            let Some(api) = kmer_api::<A>(*sid, *k) else { return };
            let api = &*api;
            let mut ops: Vec<Op> = vec![Op::RotL(1), Op::RotR(1)];
            for x in 0..m as u8 {
                ops.push(Op::PushL(x));
                ops.push(Op::PushR(x));
            }
            ops.extend(unary_ops(api));
            let sys = Graph { api, al: al.clone(), ops };
            let seed_list: Vec<A> = vec![al[0]; *k];
            let seed = (pack_u128(&codes(&seed_list), bits), seed_list);
            let st = bfs(&sys, vec![seed], usize::MAX, 10_000_000, true, out);
            let total = (m as u64).pow(*k as u32);
            out.flag("graph: every k-mer of the type was reached and expanded", st.frontier_emptied && st.states == total);
            out.check(st.states == total || st.states == 0, || {
                (format!("{cn}/kmer-graph/not-all-kmers-reachable"), format!("K={k} {sid:?}: reached {} of {total} k-mers by pushes", st.states))
            });
            out.count("graph explorations", 1);
            out.dim("k_bits", (*k * bits) as i64);
            out.observe(&(A::CID, *sid, *k, st.states, st.transitions));
        }
        Case::Family { sid, k, .. } => {
            let (sid, k) = (*sid, *k);
            let Some(api) = kmer_api::<A>(sid, k) else { return };
            let api = &*api;
            let unary = unary_ops(api);
            let ku = k as u32;
            let mut rots: Vec<u32> = (0..=2 * ku + 1).collect();
            rots.extend([3 * ku, 7 * ku, 65_535, 65_536, 65_537, u32::MAX, u32::MAX - ku, u32::MAX - 1, 1 << 31]);
            let mut lists: Vec<Vec<u8>> = Vec::new();
            pfamily(k, m, out.seed, &mut |v| lists.push(v.to_vec()));
            out.dim("k", k as i64);
            for idx in lists {
                out.units += 1;
                let list = syms::<A>(&idx);
                let v = pack_u128(&codes(&list), bits);
                let mut ops: Vec<Op> = Vec::new();
                for &n in &rots {
                    ops.push(Op::RotL(n));
                    ops.push(Op::RotR(n));
                }
                for x in 0..m as u8 {
                    ops.push(Op::PushL(x));
                    ops.push(Op::PushR(x));
                }
                ops.extend(unary.iter().cloned());
                // second step of the depth-2 chains
                let second: Vec<Op> = {
                    let mut s = vec![Op::RotL(1), Op::RotR(k as u32 - 1 + (k == 1) as u32), Op::PushL(0), Op::PushR((m - 1) as u8)];
                    s.extend(unary.iter().cloned());
                    s
                };
                for op in &ops {
                    match step_check(api, v, &list, op, &al, out) {
                        Err((sig, d)) => out.violation(sig, d),
                        Ok(None) => {}
                        Ok(Some((v1, l1))) => {
                            // depth 2 only from a thin subset of first steps (all pushes/unaries, small rotations)
                            let thin = match op {
                                Op::RotL(n) | Op::RotR(n) => *n <= 2 || *n == u32::MAX,
                                _ => true,
                            };
                            if thin {
                                for op2 in &second {
                                    if let Err((sig, d)) = step_check(api, v1, &l1, op2, &al, out) {
                                        out.violation(sig, format!("{d}; after {op:?} on {}", show(&list)));
                                    }
                                }
                            }
                        }
                    }
                }
                // reverse-complement is an involution and the canonical form is the same for k and revcomp(k)
                if let Ok(Some(c)) = catch(|| api.comp(v)) {
                    let rc = c[2];
                    out.stage = "revcomp involution / canonical form";
                    let back = catch(|| api.comp(rc).map(|x| x[2]));
                    out.check(back == Ok(Some(v)), || {
                        (format!("{cn}/kmer.to_revcomp/not-an-involution"), format!("revcomp(revcomp({})) = {:x?}", show(&list), back))
                    });
                    let canon = |a: u128, b: u128| -> Option<u128> {
                        let o = api.cmp(a, b)?;
                        Some(if o.cmp == std::cmp::Ordering::Greater { b } else { a })
                    };
                    let c1 = catch(|| canon(v, rc));
                    let c2 = catch(|| canon(rc, v));
                    out.check(c1.is_ok() && c1 == c2, || {
                        (format!("{cn}/kmer.canonical/differs-between-kmer-and-its-revcomp"), format!("min({}, rc) = {:x?} but min(rc, rc(rc)) = {:x?}", show(&list), c1, c2))
                    });
                }
                out.observe(&(A::CID, sid, k, v as u64 & 0xfff));
            }
        }
    }
}

fn main() {
    main_loop("C09", gen, run, |t| {
        json!({
            "graph_bound": graph_bound(t),
            "transitions": ["rotated_left(1)", "rotated_right(1)", "pushl(x), pushr(x) for every symbol x", "to_rev / rev (usize-backed, every codec)", "to_comp / comp / to_revcomp / revcomp (usize-backed 2-bit DNA)"],
            "family": "P(K) contents x rotation counts {0..2K+1, 3K, 7K, 65535, 65536, 65537, 2^31, u32::MAX-K, u32::MAX-1, u32::MAX} x both directions, every push, every unary op, depth-2 chains, revcomp involution, canonical min(k, revcomp k)",
            "oracle": "the same operation on the list of symbols, packed little-endian; result must be below 2^(K*BITS)",
        })
    });
}
