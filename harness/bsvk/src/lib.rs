//! bsvk - the k-mer side of the harness: one object-safe API over all 634 k-mer types.
pub mod kdispatch;
pub mod kmers;
pub use kmers::{k_set, kmer_api, max_k, reduced_k_set, KmerApi, Sid, Store, SxK};
