//! C18 — serialization round trip preserves sequences and k-mers (bincode and
//! JSON), whatever the sequence's history, including non-zero internal heads,
//! dead bits and spare capacity.

use bsv::fixture::*;
use bsv::model::pack_u128;
use bsv::producers::{self, Produced};
use bsv::rec;
use bsv::run::catch;
use bsv::*;
use bsvk::*;
use serde::{Deserialize, Serialize};
use serde_json::json;

#[derive(Serialize, Deserialize, Hash, Clone, Debug)]
enum Case {
    /// every producer of an owned sequence of length n, plus values with every non-zero head
    Seqs { cid: Cid, n: usize, variant: u64 },
    /// one k-mer type: P(K) contents (all contents when small)
    Kmers { cid: Cid, sid: Sid, k: usize },
}

fn gen(t: Tier, _seed: u64, emit: &mut dyn FnMut(Case)) {
    for cid in Cid::ALL {
        let mut ns = wb_lengths(cid.bits(), t.pick(2, 3));
        ns.extend([4, 5, 7]);
        ns.extend(long_lengths(cid.bits()));
        ns.extend(huge_lengths(cid.bits()).into_iter().step_by(3));
        ns.sort();
        ns.dedup();
        for n in ns {
            for variant in 0..t.pick(1, 2) {
                emit(Case::Seqs { cid, n, variant });
            }
        }
        for sid in Sid::ALL {
            for k in k_set(cid, sid, t.thorough()) {
                emit(Case::Kmers { cid, sid, k });
            }
        }
    }
}

fn run(c: &Case, out: &mut Out) {
    match c {
        Case::Seqs { cid, .. } | Case::Kmers { cid, .. } => bsvk::dispatch_k!(*cid, run_g(c, out)),
    }
}

/// `io::Read` over a byte slice that returns at most one byte per call
struct OneByte<'a>(&'a [u8], usize);

impl std::io::Read for OneByte<'_> {
    fn read(&mut self, buf: &mut [u8]) -> std::io::Result<usize> {
        if self.1 >= self.0.len() || buf.is_empty() {
            return Ok(0);
        }
        buf[0] = self.0[self.1];
        self.1 += 1;
        Ok(1)
    }
}

fn seq_rt<A: Sx>(pr: &Produced<A>, out: &mut Out) {
    let cn = A::CID.name();
    out.units += 1;
    let pclass: String = pr.name.chars().filter(|c| !c.is_ascii_digit()).collect();
    if let Some(h) = head_of(&pr.seq) {
        out.dim("head_bit", h as i64);
    }
    let al = alphabet::<A>();
    for fmt in ["bincode", "json", "bincode-stream", "json-reader", "json-value"] {
        out.stage = "serde round trip of Seq";
        let r: Result<Result<Seq<A>, String>, String> = catch(|| match fmt {
            "bincode" => {
                let bytes = bincode::serialize(&pr.seq).map_err(|e| format!("serialize: {e}"))?;
                bincode::deserialize::<Seq<A>>(&bytes).map_err(|e| format!("deserialize: {e}"))
            }
            "json" => {
                let txt = serde_json::to_string(&pr.seq).map_err(|e| format!("serialize: {e}"))?;
                serde_json::from_str::<Seq<A>>(&txt).map_err(|e| format!("deserialize: {e}"))
            }
            // through io::Write / io::Read (nothing to borrow from): a reader handing out one byte at a time
            "bincode-stream" => {
                let mut bytes: Vec<u8> = Vec::new();
                bincode::serialize_into(&mut bytes, &pr.seq).map_err(|e| format!("serialize_into: {e}"))?;
                bincode::deserialize_from::<_, Seq<A>>(OneByte(&bytes, 0)).map_err(|e| format!("deserialize_from: {e}"))
            }
            "json-reader" => {
                let mut bytes: Vec<u8> = Vec::new();
                serde_json::to_writer(&mut bytes, &pr.seq).map_err(|e| format!("to_writer: {e}"))?;
                serde_json::from_reader::<_, Seq<A>>(OneByte(&bytes, 0)).map_err(|e| format!("from_reader: {e}"))
            }
            _ => {
                let v = serde_json::to_value(&pr.seq).map_err(|e| format!("to_value: {e}"))?;
                serde_json::from_value::<Seq<A>>(v).map_err(|e| format!("from_value: {e}"))
            }
        });
        let back = match r {
            Ok(Ok(b)) => b,
            Ok(Err(e)) => {
                out.checks += 1;
                out.violation(format!("{cn}/seq-{fmt}/round-trip-fails"), format!("{} (len {}): {e}", pr.name, pr.codes.len()));
                continue;
            }
            Err(m) => {
                out.checks += 1;
                out.violation(format!("{cn}/seq-{fmt}/panics"), format!("{} (len {}): {m}", pr.name, pr.codes.len()));
                continue;
            }
        };
        let same = catch(|| {
            let mut ok = back == pr.seq && pr.seq == back && back.len() == pr.seq.len() && back.len() == pr.codes.len();
            ok &= rec::stream(&back).bytes == rec::stream(&pr.seq).bytes;
            if pr.symbolic {
                ok &= back.to_string() == pr.seq.to_string();
                ok &= back.iter().take(pr.codes.len() + 3).collect::<Vec<A>>() == pr.seq.iter().take(pr.codes.len() + 3).collect::<Vec<A>>();
            }
            ok
        });
        out.check(same == Ok(true), || {
            (
                format!("{cn}/seq-{fmt}/value-not-preserved [{pclass}]"),
                format!("{} (len {}, head {:?}) does not survive the {fmt} round trip (==, len, hash, display, symbols): {:?}", pr.name, pr.codes.len(), head_of(&pr.seq), same),
            )
        });
        // differential check from the non-initial state: one more edit behaves the same on both
        let r = catch(|| {
            let mut a = pr.seq.clone();
            let mut b = back.clone();
            a.push(al[0]);
            b.push(al[0]);
            a.push(al[al.len() - 1]);
            b.push(al[al.len() - 1]);
            let ok1 = a == b && a.len() == pr.codes.len() + 2;
            a.truncate(pr.codes.len() / 2);
            b.truncate(pr.codes.len() / 2);
            ok1 && a == b && rec::stream(&a).bytes == rec::stream(&b).bytes
        });
        out.check(r == Ok(true), || {
            (format!("{cn}/seq-{fmt}/deserialized-value-behaves-differently-under-edits"), format!("{}: push/push/truncate on the deserialized value and on the original diverge: {:?}", pr.name, r))
        });
    }
    // composition: a sequence followed by other values in one binary stream; the deserializer must consume
    // exactly what the serializer wrote
    out.stage = "Seq inside tuples / vectors in one bincode stream";
    let r = catch(|| -> Result<bool, String> {
        let tuple = (pr.seq.clone(), 0xA5A5_u32, String::from("tail"), pr.seq.clone());
        let bytes = bincode::serialize(&tuple).map_err(|e| format!("serialize tuple: {e}"))?;
        let back: (Seq<A>, u32, String, Seq<A>) = bincode::deserialize(&bytes).map_err(|e| format!("deserialize tuple: {e}"))?;
        let v = vec![pr.seq.clone(), Seq::<A>::new(), pr.seq.clone()];
        let vb = bincode::serialize(&v).map_err(|e| format!("serialize vec: {e}"))?;
        let vback: Vec<Seq<A>> = bincode::deserialize(&vb).map_err(|e| format!("deserialize vec: {e}"))?;
        // several values written back to back
        let mut w: Vec<u8> = Vec::new();
        bincode::serialize_into(&mut w, &pr.seq).map_err(|e| e.to_string())?;
        bincode::serialize_into(&mut w, &7u64).map_err(|e| e.to_string())?;
        bincode::serialize_into(&mut w, &pr.seq).map_err(|e| e.to_string())?;
        let mut cur = std::io::Cursor::new(&w);
        let a: Seq<A> = bincode::deserialize_from(&mut cur).map_err(|e| format!("stream 1: {e}"))?;
        let k: u64 = bincode::deserialize_from(&mut cur).map_err(|e| format!("stream 2: {e}"))?;
        let b: Seq<A> = bincode::deserialize_from(&mut cur).map_err(|e| format!("stream 3: {e}"))?;
        let single = bincode::serialize(&pr.seq).map_err(|e| e.to_string())?;
        let size = bincode::serialized_size(&pr.seq).map_err(|e| e.to_string())?;
        let j = serde_json::to_string(&(pr.seq.clone(), 5u8, vec![pr.seq.clone()])).map_err(|e| e.to_string())?;
        let jb: (Seq<A>, u8, Vec<Seq<A>>) = serde_json::from_str(&j).map_err(|e| format!("json tuple: {e}"))?;
        Ok(back.0 == pr.seq && back.1 == 0xA5A5 && back.2 == "tail" && back.3 == pr.seq
            && vback.len() == 3 && vback[0] == pr.seq && vback[1].is_empty() && vback[2] == pr.seq
            && a == pr.seq && k == 7 && b == pr.seq && cur.position() as usize == w.len()
            && size as usize == single.len()
            && jb.0 == pr.seq && jb.1 == 5 && jb.2.len() == 1 && jb.2[0] == pr.seq)
    });
    out.check(r == Ok(Ok(true)), || (format!("{cn}/seq-serde/does-not-compose-in-a-stream"), format!("{} (len {}): {:?}", pr.name, pr.codes.len(), r)));
    // deserializing INTO an existing value (Deserialize::deserialize_in_place: what serde does for the elements
    // of a Vec read in place, and what bincode::deserialize_in_place exposes): the result must equal the original
    // whatever the target held before - empty, the same value, a shorter / longer / multi-word one
    out.stage = "deserialize_in_place over an existing Seq";
    let n = pr.codes.len();
    let targets = |which: usize| -> Seq<A> {
        match which {
            0 => Seq::<A>::new(),
            1 => pr.seq.clone(),
            2 => {
                let mut t = pr.seq.clone();
                t.truncate(n / 2);
                t
            }
            3 => {
                let mut t = pr.seq.clone();
                t.push(al[al.len() - 1]);
                t.push(al[0]);
                t
            }
            4 => std::iter::repeat(al[al.len() - 1]).take(1).collect(),
            _ => std::iter::repeat(al[al.len() - 1]).take(n + 70).collect(),
        }
    };
    for which in 0..6usize {
        for fmt in ["bincode", "json"] {
            let r = catch(|| -> Result<bool, String> {
                use bincode::Options;
                let mut place = targets(which);
                let mut vplace: Vec<Seq<A>> = vec![targets(which), targets((which + 1) % 6), targets(5)];
                let many = vec![pr.seq.clone(), Seq::<A>::new()];
                if fmt == "bincode" {
                    let bytes = bincode::serialize(&pr.seq).map_err(|e| e.to_string())?;
                    let opts = bincode::options().with_fixint_encoding().allow_trailing_bytes();
                    let mut de = bincode::Deserializer::with_reader(&bytes[..], opts);
                    serde::Deserialize::deserialize_in_place(&mut de, &mut place).map_err(|e| format!("in place: {e}"))?;
                    let vb = bincode::serialize(&many).map_err(|e| e.to_string())?;
                    let mut de = bincode::Deserializer::with_reader(&vb[..], opts);
                    serde::Deserialize::deserialize_in_place(&mut de, &mut vplace).map_err(|e| format!("vec in place: {e}"))?;
                } else {
                    let txt = serde_json::to_string(&pr.seq).map_err(|e| e.to_string())?;
                    let mut de = serde_json::Deserializer::from_str(&txt);
                    serde::Deserialize::deserialize_in_place(&mut de, &mut place).map_err(|e| format!("in place: {e}"))?;
                    let vt = serde_json::to_string(&many).map_err(|e| e.to_string())?;
                    let mut de = serde_json::Deserializer::from_str(&vt);
                    serde::Deserialize::deserialize_in_place(&mut de, &mut vplace).map_err(|e| format!("vec in place: {e}"))?;
                }
                let mut ok = place == pr.seq && pr.seq == place && place.len() == n;
                ok &= rec::stream(&place).bytes == rec::stream(&pr.seq).bytes;
                if pr.symbolic {
                    ok &= place.to_string() == pr.seq.to_string();
                }
                ok &= vplace.len() == 2 && vplace[0] == pr.seq && vplace[0].len() == n && vplace[1].is_empty();
                // and the value read in place keeps behaving like the original under one more edit
                let mut a = pr.seq.clone();
                a.push(al[0]);
                place.push(al[0]);
                ok &= a == place && rec::stream(&a).bytes == rec::stream(&place).bytes;
                Ok(ok)
            });
            out.check(r == Ok(Ok(true)), || {
                (
                    format!("{cn}/seq-{fmt}-in-place/value-not-preserved"),
                    format!("{} (len {n}) read in place over target form {which} (0 empty, 1 same, 2 half, 3 two longer, 4 one symbol, 5 n+70 symbols): {:?}", pr.name, r),
                )
            });
        }
    }
    out.observe(&(A::CID, pr.codes.len(), pr.codes.first().copied()));
}

fn run_g<A: SxK>(c: &Case, out: &mut Out) {
    let cn = A::CID.name();
    let m = alphabet::<A>().len();
    let bits = A::BITS as usize;
    let nof = noff(bits);
    match c {
        Case::Seqs { n, variant, .. } => {
            let content = syms::<A>(&bg(*n, m, 130 + variant, out.seed));
            let other = syms::<A>(&bg(*n, m, 140 + variant, out.seed));
            let offsets: Vec<usize> = if *n > 1200 { vec![0, 1] } else if out.tier.thorough() { (0..nof).collect() } else { vec![0, 1, nof / 2 + 1, nof - 1] };
            out.dim("len", *n as i64);
            let mut prods = match catch(|| producers::producers::<A>(&content, &other, &offsets, true)) {
                Ok(p) => p,
                Err(m) => {
                    out.violation(format!("{cn}/producer/panics"), format!("building the producers for {} panicked: {m}", show_cut(&content)));
                    return;
                }
            };
            // values whose internal bit vector has a non-zero head and set dead bits, for every head
            for h in 1..64 {
                if out.tier.thorough() || h % 7 == 1 || h == 63 || h == 64 - bits.min(63) {
                    if let Some(s) = headed_via_serde(&content, h) {
                        prods.push(Produced { name: format!("deserialized with head {h}"), seq: s, codes: codes(&content), symbolic: true });
                    }
                }
            }
            out.count("producers", prods.len() as u64);
            for pr in &prods {
                seq_rt::<A>(pr, out);
            }
        }
        Case::Kmers { sid, k, .. } => {
            let (sid, k) = (*sid, *k);
            let sn = sid.name();
            let mut list: Vec<Vec<u8>> = Vec::new();
            if (m as f64).powi(k as i32) <= 4096.0 {
                all_seqs(k, m, &mut |v| list.push(v.to_vec()));
            } else {
                pfamily(k, m, out.seed, &mut |v| list.push(v.to_vec()));
            }
            out.dim("k", k as i64);
            for idx in list {
                out.units += 1;
                let content = syms::<A>(&idx);
                let v = pack_u128(&codes(&content), bits);
                out.stage = "serde round trip of Kmer";
                match catch(|| bsvs::ksd::kmer_roundtrip(A::CID, sid, k, v)) {
                    Ok(Some((b, j))) => {
                        out.check(b == Ok(v), || (format!("{cn}/kmer<{sn}>-bincode/value-not-preserved"), format!("Kmer<_,{k},{sn}> {} ({v:#x}) through bincode: {:?}", show(&content), b)));
                        out.check(j == Ok(v), || (format!("{cn}/kmer<{sn}>-json/value-not-preserved"), format!("Kmer<_,{k},{sn}> {} ({v:#x}) through JSON: {:?}", show(&content), j)));
                    }
                    Ok(None) => out.violation("MACHINERY/k-does-not-fit", format!("{:?} {sid:?} {k}", A::CID)),
                    Err(msg) => {
                        out.checks += 1;
                        out.violation(format!("{cn}/kmer<{sn}>-serde/panics"), format!("Kmer<_,{k},{sn}> {}: {msg}", show(&content)));
                    }
                }
                // the deserialized k-mer displays and hashes like the original (same raw value => same type-level behaviour)
                if let Some(api) = kmer_api::<A>(sid, k) {
                    let d = catch(|| api.display(v));
                    out.check(d.as_deref() == Ok(show(&content).as_str()), || (format!("{cn}/kmer<{sn}>/display-wrong"), format!("{:?}", d)));
                }
                out.observe(&(A::CID, sid, k, v as u64 & 0xfff));
            }
        }
    }
}

fn main() {
    main_loop("C18", gen, run, |_| {
        json!({
            "formats": ["bincode 1.3 (slice)", "bincode 1.3 (serialize_into / deserialize_from an io::Read handing out one byte at a time)", "serde_json (string)", "serde_json (to_writer / from_reader)", "serde_json (Value)"],
            "sequence_values": "every producer of bsv/src/producers.rs (parsed, collected, copies of offset slices, rev/comp/mask results, bitwise results, edit histories with dead bits and kept allocations, empty values with a history, with_capacity) at every word-boundary length, plus values deserialized from bitvec's serial form with a non-zero head and set dead bits",
            "oracle": "deserialized == original in both directions, same len, same recorded hash stream, same display and symbols, and the same behaviour under push/push/truncate afterwards",
        })
    });
}
