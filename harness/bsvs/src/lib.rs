//! bsvs - serde round trips of every k-mer type (only C18 pays for these 634 instantiations).
pub mod ksd;

use bio_seq::kmer::Kmer;
use bsv::codecs::*;
use bsvk::Store;
use std::marker::PhantomData;

pub fn rt<A: Sx, const K: usize, S: Store>(v: u128) -> (Result<u128, String>, Result<u128, String>) {
    let k: Kmer<A, K, S> = Kmer { _p: PhantomData, bs: S::from_u128(v) };
    let b = (|| {
        let bytes = bincode::serialize(&k).map_err(|e| format!("serialize: {e}"))?;
        let back: Kmer<A, K, S> = bincode::deserialize(&bytes).map_err(|e| format!("deserialize: {e}"))?;
        if back != k {
            return Err(format!("deserialized k-mer != original ({:#x} vs {v:#x})", back.bs.to_u128()));
        }
        // and through io::Write / io::Read
        let mut w: Vec<u8> = Vec::new();
        bincode::serialize_into(&mut w, &k).map_err(|e| format!("serialize_into: {e}"))?;
        let back2: Kmer<A, K, S> = bincode::deserialize_from(std::io::Cursor::new(&w)).map_err(|e| format!("deserialize_from: {e}"))?;
        if back2 != k {
            return Err(format!("k-mer read back from a stream != original ({:#x} vs {v:#x})", back2.bs.to_u128()));
        }
        Ok(back.bs.to_u128())
    })();
    let j = (|| {
        let txt = serde_json::to_string(&k).map_err(|e| format!("serialize: {e}"))?;
        let back: Kmer<A, K, S> = serde_json::from_str(&txt).map_err(|e| format!("deserialize {txt}: {e}"))?;
        let back2: Kmer<A, K, S> = serde_json::from_reader(txt.as_bytes()).map_err(|e| format!("from_reader {txt}: {e}"))?;
        if back2 != k {
            return Err(format!("k-mer read back from a JSON stream != original ({:#x} vs {v:#x})", back2.bs.to_u128()));
        }
        if back != k {
            return Err(format!("deserialized k-mer != original ({:#x} vs {v:#x})", back.bs.to_u128()));
        }
        Ok(back.bs.to_u128())
    })();
    (b, j)
}
