//! serde round trips of every k-mer type (used by c18 only)
