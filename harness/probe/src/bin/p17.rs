//! C17 / E4 — `parse_width` and `parse_variants` of bio-seq-derive/src/codec.rs (included by
//! #[path]) driven directly: every maximum discriminant 1..=255 x {no #[bits], #[bits(1..=8)]}.

#[allow(dead_code)]
#[path = "/repo/bio-seq-derive/src/codec.rs"]
mod codec;

use bsv::run::catch;
use bsv::*;
use serde::{Deserialize, Serialize};
use serde_json::json;

#[derive(Serialize, Deserialize, Hash, Clone, Debug)]
enum Case {
    /// width inferred / checked for an enum whose largest discriminant is `max`, with #[bits(w)] (w = 0: absent)
    Width { max: u8, w: u8 },
    /// parse_variants on a two-variant enum {A = 0, Z = max} written in a given literal form
    Variants { max: u8, form: u8 },
}

fn gen(_t: Tier, _seed: u64, emit: &mut dyn FnMut(Case)) {
    for max in 1..=255u8 {
        for w in 0..=8u8 {
            emit(Case::Width { max, w });
        }
        for form in 0..4u8 {
            emit(Case::Variants { max, form });
        }
    }
}

fn bitlen(x: u8) -> u8 {
    (8 - x.leading_zeros()) as u8
}

fn run(c: &Case, out: &mut Out) {
    match c {
        Case::Width { max, w } => {
            let attrs: Vec<syn::Attribute> = if *w == 0 {
                vec![]
            } else {
                let lit = syn::LitInt::new(&w.to_string(), proc_macro2::Span::call_site());
                vec![syn::parse_quote!(#[bits(#lit)])]
            };
            out.stage = "parse_width";
            let got = catch(|| codec::parse_width(&attrs, *max).map_err(|e| e.to_string()));
            let need = bitlen(*max);
            let want: Result<u8, ()> = if *w == 0 { Ok(need) } else if *w >= need { Ok(*w) } else { Err(()) };
            let ok = match (&got, &want) {
                (Ok(Ok(g)), Ok(x)) => g == x,
                (Ok(Err(_)), Err(())) => true,
                _ => false,
            };
            out.check(ok, || {
                let class = match (&got, &want) {
                    (Err(_), _) => "panics",
                    (Ok(Ok(_)), Ok(_)) => "wrong-width",
                    (Ok(Ok(_)), Err(())) => "accepts-too-small-width",
                    (Ok(Err(_)), _) => "rejects-sufficient-width",
                };
                (
                    format!("parse_width/{class}"),
                    format!("parse_width(#[bits({})], max discriminant {max}) = {:?}; the smallest width holding {max} is {need}", if *w == 0 { "absent".to_string() } else { w.to_string() }, got),
                )
            });
            out.observe(&(*max, *w, got.ok().and_then(|r| r.ok())));
        }
        Case::Variants { max, form } => {
            let lit: syn::Expr = match form {
                0 => syn::parse_str(&format!("{max}")).unwrap(),
                1 => syn::parse_str(&format!("{max:#b}")).unwrap(),
                2 => syn::parse_str(&format!("{max:#x}")).unwrap(),
                _ => syn::parse_str(&format!("{max:#o}")).unwrap(),
            };
            let en: syn::ItemEnum = syn::parse_quote!(
                enum E {
                    A = 0,
                    #[display('z')]
                    #[alt(0b11)]
                    Z = #lit,
                }
            );
            out.stage = "parse_variants";
            let got = catch(|| codec::parse_variants(&en.variants).map(|v| (v.max_discriminant, v.idents.len(), v.alts.len(), v.from_chars.len())).map_err(|e| e.to_string()));
            out.check(got == Ok(Ok((*max, 2, 3, 2))), || {
                ("parse_variants/wrong-summary".into(), format!("parse_variants(A = 0, Z = {max} in literal form {form}) = {:?}, want (max {max}, 2 idents, 3 decode arms, 2 parse arms)", got))
            });
        }
    }
}

fn main() {
    main_loop("C17", gen, run, |_| json!({"engine": "E4 probe of bio-seq-derive/src/codec.rs (parse_width, parse_variants)", "space": "max discriminant 1..=255 x {#[bits] absent, 1..=8}; 4 literal forms x 255 values"}));
}
