//! C16 / E4 — the functions behind `dna!` and `iupac!` (bio-seq-derive/src/seqarray.rs, included
//! by #[path]) driven directly: every string up to a length bound over the macro's alphabet (and
//! a few offending characters) against the runtime parser's packed bits.

#[allow(dead_code)]
#[path = "/repo/bio-seq-derive/src/seqarray.rs"]
mod seqarray;

use bsv::fixture::all_seqs;
use bsv::run::catch;
use bsv::*;
use serde::{Deserialize, Serialize};
use serde_json::json;

#[derive(Serialize, Deserialize, Hash, Clone, Debug)]
enum Case {
    /// every string of length l over the charset whose first char is #first (dna: ACGT + offending; iupac: 16 + offending)
    Strings { iupac: bool, l: usize, first: usize },
    Empty { iupac: bool },
}

const DNA_CS: &[char] = &['A', 'C', 'G', 'T', 'a', 'N', 'U', '1', ' ', 'é'];
const IUPAC_CS: &[char] = &['A', 'C', 'G', 'T', 'R', 'Y', 'S', 'W', 'K', 'M', 'B', 'D', 'H', 'V', 'N', '-', 'a', 'U', 'Z', '1', 'é'];

fn maxlen(iupac: bool, t: Tier) -> usize {
    match (iupac, t) {
        (false, Tier::Quick) => 5,
        (false, Tier::Thorough) => 7,
        (true, Tier::Quick) => 3,
        (true, Tier::Thorough) => 4,
    }
}

fn gen(t: Tier, _seed: u64, emit: &mut dyn FnMut(Case)) {
    for iupac in [false, true] {
        emit(Case::Empty { iupac });
        let cs = if iupac { IUPAC_CS } else { DNA_CS };
        for l in 1..=maxlen(iupac, t) {
            for first in 0..cs.len() {
                emit(Case::Strings { iupac, l, first });
            }
        }
    }
}

fn one(iupac: bool, text: &str, out: &mut Out) {
    out.units += 1;
    let name = if iupac { "iupac_seq" } else { "dna_seq" };
    let lit = syn::LitStr::new(text, proc_macro2::Span::call_site());
    out.stage = "dna_seq / iupac_seq";
    let got = catch(|| if iupac { seqarray::iupac_seq(&lit) } else { seqarray::dna_seq(&lit) }.map_err(|e| e.to_string()));
    // oracle: the runtime parser on the same text ('X' is an accepted alias of '-' in iupac! only and is not enumerated)
    let want: Result<(usize, Vec<u8>), ()> = if iupac {
        Seq::<Iupac>::try_from(text).map(|s| (s.len(), bits_of_seq(&s, 4))).map_err(|_| ())
    } else {
        Seq::<Dna>::try_from(text).map(|s| (s.len(), bits_of_seq(&s, 2))).map_err(|_| ())
    };
    let ok = match (&got, &want) {
        (Ok(Ok((n, bits))), Ok((wn, wbits))) => n == wn && bits == wbits,
        (Ok(Err(_)), Err(())) => true,
        _ => false,
    };
    out.check(ok, || {
        let class = match (&got, &want) {
            (Ok(Ok(_)), Ok(_)) => "wrong-bits",
            (Ok(Ok(_)), Err(())) => "accepts-text-the-runtime-parser-rejects",
            (Ok(Err(_)), Ok(_)) => "rejects-text-the-runtime-parser-accepts",
            _ => "panics",
        };
        (format!("{name}/{class}"), format!("{name}({text:?}) = {:?}; runtime parser: {:?}", got, want))
    });
    out.observe(&(iupac, text.len(), got.as_ref().map(|r| r.is_ok()).unwrap_or(false)));
}

fn bits_of_seq<A: Codec>(s: &Seq<A>, w: usize) -> Vec<u8> {
    let raw = s.into_raw();
    (0..s.len() * w).map(|p| ((raw[p / 64] >> (p % 64)) & 1) as u8).collect()
}

fn run(c: &Case, out: &mut Out) {
    match c {
        Case::Empty { iupac } => one(*iupac, "", out),
        Case::Strings { iupac, l, first } => {
            let cs = if *iupac { IUPAC_CS } else { DNA_CS };
            let mut idx = vec![*first as u8; *l];
            all_seqs(*l - 1, cs.len(), &mut |rest| {
                idx[1..].copy_from_slice(rest);
                let text: String = idx.iter().map(|&i| cs[i as usize]).collect();
                one(*iupac, &text, out);
            });
        }
    }
}

fn main() {
    main_loop("C16", gen, run, |t| {
        json!({"engine": "E4 probe of bio-seq-derive/src/seqarray.rs (dna_seq, iupac_seq)", "dna_charset": DNA_CS.iter().collect::<String>(), "iupac_charset": IUPAC_CS.iter().collect::<String>(),
               "max_len": [maxlen(false, t), maxlen(true, t)]})
    });
}
