//! E4 probe crate: see src/bin
