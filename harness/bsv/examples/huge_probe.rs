fn main() { for b in [1usize,2,4,5,6,8] { let v = bsv::huge_lengths(b); println!("{b}: {} {:?}", v.len(), v); } }
