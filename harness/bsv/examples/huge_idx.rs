use bsv::*;
fn main() {
    let s: Seq<Dna> = "CATG".try_into().unwrap();
    for i in [1usize << 63, (1usize << 63) + 1, usize::MAX, usize::MAX / 2 + 1] {
        let g = s.get(i);
        let n = std::panic::catch_unwind(|| s.nth(i));
        let x = std::panic::catch_unwind(|| s[i].to_string());
        let r = std::panic::catch_unwind(|| s[i..i + 1].to_string());
        println!("{i:#x}: get={g:?} nth={n:?} [i]={x:?} [i..i+1]={r:?}");
    }
}
