use bsv::*;
fn main() {
    let s: Seq<Dna> = "TACGTACGT".try_into().unwrap();
    println!("{}", serde_json::to_string(&s).unwrap());
    let j = serde_json::json!({"_p": null, "bv": {"order":"bitvec::order::Lsb0","head":{"width":64,"index":6},"bits":8,"data":[0b11100100u64 << 6]}});
    let r: Result<Seq<Dna>, _> = serde_json::from_value(j);
    match r { Ok(x) => println!("{} head={:?} raw={:?}", x, bsv::fixture::head_of(&x), x.into_raw()), Err(e) => println!("err {e}") }
}
