//! Deterministic construction of inputs: symbol lists, background patterns,
//! the P(n) family, views at a chosen bit offset inside a flanked parent, owned
//! sequences whose internal bit vector has a non-zero head.

use crate::codecs::*;
use std::borrow::ToOwned;

/// Symbols by index into the codec's own `items()` list.
pub fn syms<A: Codec>(idx: &[u8]) -> Vec<A> {
    let al = alphabet::<A>();
    idx.iter().map(|&i| al[i as usize % al.len()]).collect()
}

pub fn codes<A: Codec>(v: &[A]) -> Vec<u8> {
    v.iter().map(|a| a.to_bits()).collect()
}

/// Owned sequence from a symbol list (`FromIterator`, i.e. repeated `push`).
pub fn build<A: Codec>(v: &[A]) -> Seq<A> {
    v.iter().copied().collect()
}

/// Read a sequence back as a list of symbols through `get(i)`; the cap keeps a
/// broken `len()` from running away.
pub fn read<A: Codec>(s: &SeqSlice<A>) -> Vec<A> {
    let n = s.len();
    (0..n.min(1 << 20)).filter_map(|i| s.get(i)).collect()
}

fn xorshift(state: &mut u64) -> u64 {
    let mut x = *state;
    x ^= x << 13;
    x ^= x >> 7;
    x ^= x << 17;
    *state = x;
    x.wrapping_mul(0x2545F4914F6CDD1D)
}

/// Background pattern: a fixed, non-periodic sequence of symbol indices over an
/// alphabet of `m` symbols.  `variant` selects one of several backgrounds and
/// `seed` (VERIF_SEED) rotates them; the enumerated space is the same for
/// every seed.
pub fn bg(n: usize, m: usize, variant: u64, seed: u64) -> Vec<u8> {
    let mut st = 0x9E3779B97F4A7C15u64 ^ (variant.wrapping_mul(0xD1B54A32D192ED03)) ^ seed.wrapping_mul(0xA24BAED4963EE407);
    if st == 0 {
        st = 1;
    }
    for _ in 0..4 {
        xorshift(&mut st);
    }
    (0..n).map(|_| ((xorshift(&mut st) >> 33) % m as u64) as u8).collect()
}

/// P(n): for two backgrounds, every symbol at every position; plus the two
/// constant sequences of the first and last alphabet index.  Duplicates are
/// skipped (the plain background is emitted once per background).
pub fn pfamily(n: usize, m: usize, seed: u64, f: &mut dyn FnMut(&[u8])) {
    if n == 0 {
        f(&[]);
        return;
    }
    for variant in 0..2u64 {
        let base = bg(n, m, variant, seed);
        f(&base);
        let mut v = base.clone();
        for i in 0..n {
            for x in 0..m as u8 {
                if x != base[i] {
                    v[i] = x;
                    f(&v);
                }
            }
            v[i] = base[i];
        }
    }
    f(&vec![0u8; n]);
    f(&vec![(m - 1) as u8; n]);
}

/// Every sequence of length `n` over `m` symbols, in counting order (position 0 fastest).
pub fn all_seqs(n: usize, m: usize, f: &mut dyn FnMut(&[u8])) {
    let mut v = vec![0u8; n];
    loop {
        f(&v);
        let mut i = 0;
        loop {
            if i == n {
                return;
            }
            v[i] += 1;
            if (v[i] as usize) < m {
                break;
            }
            v[i] = 0;
            i += 1;
        }
    }
}

/// `content` placed at symbol offset `s` inside an owned parent whose flanking
/// symbols differ from the adjacent content symbols (so an off-by-one shows).
pub struct Placed<A: Codec> {
    pub parent: Seq<A>,
    pub s: usize,
    pub n: usize,
}

impl<A: Codec> Placed<A> {
    pub fn view(&self) -> &SeqSlice<A> {
        &self.parent[self.s..self.s + self.n]
    }
}

pub fn flanked<A: Codec>(content: &[A], s: usize, variant: usize) -> Vec<A> {
    let al = alphabet::<A>();
    let m = al.len();
    let mut v: Vec<A> = Vec::with_capacity(s + content.len() + 3);
    for j in 0..s {
        v.push(al[(j * 5 + 1 + variant) % m]);
    }
    if s > 0 && !content.is_empty() && m > 1 && v[s - 1] == content[0] {
        let k = al.iter().position(|a| *a == content[0]).unwrap_or(0);
        v[s - 1] = al[(k + 1) % m];
    }
    v.extend_from_slice(content);
    for j in 0..3 {
        v.push(al[(j * 3 + 2 + variant) % m]);
    }
    if let Some(last) = content.last() {
        if m > 1 && v[s + content.len()] == *last {
            let k = al.iter().position(|a| a == last).unwrap_or(0);
            v[s + content.len()] = al[(k + 1) % m];
        }
    }
    v
}

pub fn place<A: Codec>(content: &[A], s: usize, variant: usize) -> Placed<A> {
    Placed {
        parent: build(&flanked(content, s, variant)),
        s,
        n: content.len(),
    }
}

/// Like `place`, but the parent is an owned sequence whose internal bit vector starts at the
/// bit offset of symbol `ph` (see `owned_headed`).
pub fn place_headed<A: Codec>(content: &[A], s: usize, variant: usize, ph: usize) -> Placed<A> {
    let inner = flanked(content, s, variant);
    Placed {
        parent: owned_headed(&inner, ph),
        s,
        n: content.len(),
    }
}

/// Owned copy of `content` taken from an offset slice (`to_owned`), i.e. a
/// sequence whose history includes a slice-and-copy at symbol offset `ph`.
pub fn owned_from_offset<A: Codec>(content: &[A], ph: usize) -> Seq<A> {
    let p = place(content, ph, 1);
    p.view().to_owned()
}

/// An owned sequence holding `content` whose internal bit vector has head bit
/// index `(ph * BITS) % 64`.  First choice: copy it out of an offset slice (on
/// trees where copies keep the source alignment that already gives the head).
/// Otherwise the value is built through the crate's public `Deserialize` impl
/// from bitvec's documented serial form with that head and with the dead bits
/// before the head and after the tail set, which is a legal `Seq` value.
pub fn owned_headed<A: Codec>(content: &[A], ph: usize) -> Seq<A> {
    let want = (ph * A::BITS as usize) % 64;
    let copied = owned_from_offset(content, ph);
    if want == 0 || head_of(&copied) == Some(want as u64) {
        return copied;
    }
    match headed_via_serde(content, want) {
        Some(s) if s.len() == content.len() => s,
        _ => copied,
    }
}

/// Build `Seq<A>` from `{"_p":null,"bv":{"order":..,"head":{"width":64,"index":h},"bits":n,"data":[..]}}`.
pub fn headed_via_serde<A: Codec>(content: &[A], head: usize) -> Option<Seq<A>> {
    let bits = content.len() * A::BITS as usize;
    let cs = codes(content);
    let words = (head + bits + 63) / 64;
    let mut data = vec![0u64; words.max(if bits == 0 { 0 } else { 1 })];
    for (i, c) in cs.iter().enumerate() {
        for b in 0..A::BITS as usize {
            if (c >> b) & 1 == 1 {
                let p = head + i * A::BITS as usize + b;
                data[p / 64] |= 1 << (p % 64);
            }
        }
    }
    // dead bits: before the head and after the tail
    if !data.is_empty() {
        for p in 0..head {
            data[0] |= 1 << p;
        }
        for p in head + bits..64 * data.len() {
            if p % 2 == 1 {
                data[p / 64] |= 1 << (p % 64);
            }
        }
    }
    let j = serde_json::json!({"_p": null, "bv": {"order": "bitvec::order::Lsb0", "head": {"width": 64, "index": if bits == 0 && data.is_empty() { 0 } else { head }}, "bits": bits, "data": data}});
    serde_json::from_value(j).ok()
}

/// Internal head bit index of an owned sequence, read from bitvec's public
/// serialisation (no hook): `{"bv": {"head": {"index": h, ..}, ..}}`.
pub fn head_of<A: Codec>(seq: &Seq<A>) -> Option<u64> {
    let v = serde_json::to_value(seq).ok()?;
    v.get("bv")?.get("head")?.get("index")?.as_u64()
}

/// A `fmt::Write` sink that accepts at most `cap` bytes and then reports an error (a full fixed-size buffer).
pub struct LimitedSink {
    pub buf: String,
    pub cap: usize,
}

impl std::fmt::Write for LimitedSink {
    fn write_str(&mut self, s: &str) -> std::fmt::Result {
        if self.buf.len() + s.len() > self.cap {
            // take what fits, like a truncating buffer would, then fail
            let room = self.cap - self.buf.len();
            let mut cut = room.min(s.len());
            while !s.is_char_boundary(cut) {
                cut -= 1;
            }
            self.buf.push_str(&s[..cut]);
            return Err(std::fmt::Error);
        }
        self.buf.push_str(s);
        Ok(())
    }
}

/// Format `first` into a sink that fails half way, then format `second` normally: what the second prints.
pub fn display_after_failed_write(first: &dyn std::fmt::Display, first_len: usize, second: &dyn std::fmt::Display) -> String {
    use std::fmt::Write;
    let mut sink = LimitedSink { buf: String::new(), cap: first_len / 2 };
    let _ = write!(sink, "{first}");
    let mut sink0 = LimitedSink { buf: String::new(), cap: 0 };
    let _ = write!(sink0, "{first}");
    format!("{second}")
}

/// Does the real sequence hold exactly the symbols of the model list?
/// (length, every `get(i)`, nothing past the end, and the displayed text)
pub fn matches<A: Codec>(s: &SeqSlice<A>, want: &[A]) -> bool {
    if s.len() != want.len() {
        return false;
    }
    for (i, w) in want.iter().enumerate() {
        if s.get(i) != Some(*w) {
            return false;
        }
    }
    if s.get(want.len()).is_some() {
        return false;
    }
    let text: String = want.iter().map(|a| a.to_char()).collect();
    s.to_string() == text
}

/// Short rendering of a real sequence for violation details.
pub fn render<A: Codec>(s: &SeqSlice<A>) -> String {
    let t = s.to_string();
    if t.len() > 140 {
        format!("{}…(len {})", &t[..140], s.len())
    } else {
        format!("{t} (len {})", s.len())
    }
}

pub fn show_cut<A: Codec>(v: &[A]) -> String {
    let t = show(v);
    if t.len() > 140 {
        format!("{}…(len {})", &t[..140], v.len())
    } else {
        t
    }
}

/// `SeqArray<A, N, W>` built from model words (the representation `dna!`/`iupac!` produce); bits
/// past the N symbols are filled with a pattern so that an over-read shows.
pub fn array_of<A: Codec, const N: usize, const W: usize>(content: &[A]) -> SeqArray<A, N, W> {
    assert_eq!(content.len(), N);
    assert!(N * A::BITS as usize <= 64 * W);
    let w = crate::model::pack_words(&codes(content), A::BITS as usize);
    let mut words = [0usize; W];
    for (i, x) in w.iter().enumerate() {
        words[i] = *x as usize;
    }
    for b in N * A::BITS as usize..64 * W {
        if b % 3 != 0 {
            words[b / 64] |= 1 << (b % 64);
        }
    }
    SeqArray { _p: std::marker::PhantomData, ba: bitvec::array::BitArray::new(words) }
}
