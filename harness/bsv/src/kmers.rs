//! k-mer machinery: storage ids, a harness-side storage trait, and the visitor
//! through which a check body is instantiated for one (codec, storage, K).

use crate::codecs::*;
use bio_seq::kmer::{Kmer, KmerStorage};
use serde::{Deserialize, Serialize};
use std::fmt::Debug;
use std::hash::Hash;

#[derive(Serialize, Deserialize, Clone, Copy, Debug, Hash, PartialEq, Eq, PartialOrd, Ord)]
pub enum Sid {
    Usize,
    U64,
    U128,
}

impl Sid {
    pub const ALL: [Sid; 3] = [Sid::Usize, Sid::U64, Sid::U128];
    pub fn width(self) -> usize {
        match self {
            Sid::Usize | Sid::U64 => 64,
            Sid::U128 => 128,
        }
    }
    pub fn name(self) -> &'static str {
        match self {
            Sid::Usize => "usize",
            Sid::U64 => "u64",
            Sid::U128 => "u128",
        }
    }
}

/// Largest K that fits: K * BITS <= storage width.
pub fn max_k(cid: Cid, sid: Sid) -> usize {
    sid.width() / cid.bits()
}

/// K values of a tier: quick = {1,2,3,4, one mid value, fit-1, fit} (and, for 128-bit storage, the
/// values around the 64-bit word boundary); thorough = every K that fits.
pub fn k_set(cid: Cid, sid: Sid, thorough: bool) -> Vec<usize> {
    let m = max_k(cid, sid);
    if thorough {
        return (1..=m).collect();
    }
    let mut v = vec![1, 2, 3, 4, m / 2, m.saturating_sub(1), m];
    if sid == Sid::U128 {
        let b = 64 / cid.bits();
        v.extend([b.saturating_sub(1), b, b + 1]);
    }
    v.retain(|&k| k >= 1 && k <= m);
    v.sort();
    v.dedup();
    v
}

/// Harness-side view of the three storage types.
pub trait Store: KmerStorage + Copy + Eq + Ord + Hash + Debug + Send + Sync + 'static {
    const SID: Sid;
    const WIDTH: usize;
    fn to_u128(self) -> u128;
    fn from_u128(x: u128) -> Self;
    /// `Kmer::from(integer)` where the crate offers it for this storage (usize, u64)
    fn kmer_from_int<A: Codec, const K: usize>(x: u128) -> Option<Kmer<A, K, Self>>;
}

impl Store for usize {
    const SID: Sid = Sid::Usize;
    const WIDTH: usize = 64;
    fn to_u128(self) -> u128 {
        self as u128
    }
    fn from_u128(x: u128) -> Self {
        x as usize
    }
    fn kmer_from_int<A: Codec, const K: usize>(x: u128) -> Option<Kmer<A, K, Self>> {
        Some(Kmer::<A, K, usize>::from(x as usize))
    }
}

impl Store for u64 {
    const SID: Sid = Sid::U64;
    const WIDTH: usize = 64;
    fn to_u128(self) -> u128 {
        self as u128
    }
    fn from_u128(x: u128) -> Self {
        x as u64
    }
    fn kmer_from_int<A: Codec, const K: usize>(x: u128) -> Option<Kmer<A, K, Self>> {
        Some(Kmer::<A, K, u64>::from(x as u64))
    }
}

impl Store for u128 {
    const SID: Sid = Sid::U128;
    const WIDTH: usize = 128;
    fn to_u128(self) -> u128 {
        self
    }
    fn from_u128(x: u128) -> Self {
        x
    }
    fn kmer_from_int<A: Codec, const K: usize>(_x: u128) -> Option<Kmer<A, K, Self>> {
        None
    }
}

/// A check body instantiated per k-mer type.  `any` runs for every storage;
/// `word` additionally for usize-backed k-mers (Deref, AsRef, Reverse, ...);
/// `dna` additionally for usize-backed 2-bit DNA (complement, revcomp).
pub trait KVisitor {
    fn any<A: Sx, const K: usize, S: Store>(&mut self);
    fn word<A: Sx, const K: usize>(&mut self) {}
    fn dna<const K: usize>(&mut self) {}
}

pub use crate::kdispatch::dispatch_k;
