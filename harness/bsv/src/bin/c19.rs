//! C19 — cross-codec conversion and trimming preserve the underlying bases.

use bio_seq::error::ParseBioError;
use bsv::fixture::*;
use bsv::spec::{self, Spec};
use bsv::*;
use serde::{Deserialize, Serialize};
use serde_json::json;

#[derive(Serialize, Deserialize, Hash, Clone, Debug)]
enum Case {
    /// all 256 text::Dna bit patterns -> dna::Dna
    TextToDna { b: u8 },
    /// every DNA sequence of length n starting with symbol `first`, converted to IUPAC / text / DNA
    ConvAll { n: usize, first: u8 },
    /// DNA content of length n as a slice at offset s (one pattern / P(n))
    ConvShaped { n: usize, s: usize },
    /// DNA static arrays of a fixed set of lengths
    ConvArray { n: usize },
    /// trimming: every string of length l over {2 accepted, 2 rejected} bytes (byte choice `pick`)
    TrimMix { cid: Cid, l: usize, pick: usize },
    /// trimming: bad^i good^j bad^k good^l bad^m with run lengths from a boundary set; (i, j) fixed per case
    TrimRuns { cid: Cid, i: usize, j: usize },
    /// trimming: every well-formed 2-byte UTF-8 sequence with lead byte `lead` (and a family of 3- and 4-byte ones)
    /// before / after / inside an acceptable run
    TrimUtf8 { cid: Cid, lead: u8 },
}

fn run_lens(cid: Cid) -> Vec<usize> {
    let spw = 64 / cid.bits();
    let mut v = vec![0, 1, 2, spw - 1, spw, spw + 1];
    v.sort();
    v.dedup();
    v
}

fn gen(t: Tier, _seed: u64, emit: &mut dyn FnMut(Case)) {
    for b in 0..=255u8 {
        emit(Case::TextToDna { b });
    }
    emit(Case::ConvAll { n: 0, first: 0 });
    for n in 1..=t.pick(7, 10) {
        for first in 0..4 {
            emit(Case::ConvAll { n, first });
        }
    }
    for n in 0..=66 {
        for s in 0..32 {
            emit(Case::ConvShaped { n, s });
        }
    }
    for n in long_lengths(2) {
        for s in [0usize, 1, 31] {
            emit(Case::ConvShaped { n, s });
        }
    }
    for n in huge_lengths(2) {
        emit(Case::ConvShaped { n, s: n % 2 });
    }
    for n in [0usize, 1, 2, 3, 5, 31, 32, 33, 64, 65, 96] {
        emit(Case::ConvArray { n });
    }
    for cid in Cid::ALL {
        for l in 0..=t.pick(6, 8) {
            for pick in 0..t.pick(1, 3) {
                emit(Case::TrimMix { cid, l, pick });
            }
        }
        for lead in 0xC2..=0xDFu8 {
            emit(Case::TrimUtf8 { cid, lead });
        }
        let rl = run_lens(cid);
        for &i in &rl {
            for &j in &rl {
                emit(Case::TrimRuns { cid, i, j });
            }
        }
    }
}

fn run(c: &Case, out: &mut Out) {
    match c {
        Case::TextToDna { b } => text_to_dna(*b, out),
        Case::ConvAll { n, first } => {
            if *n == 0 {
                conv(&[], 0, out);
                return;
            }
            let mut idx = vec![*first; *n];
            all_seqs(*n - 1, 4, &mut |rest| {
                idx[1..].copy_from_slice(rest);
                let s = rest.iter().map(|&x| x as usize).sum::<usize>() % 32;
                conv(&syms::<Dna>(&idx), s, out);
            });
        }
        Case::ConvShaped { n, s } => {
            if out.tier.thorough() && *n <= 70 {
                let seed = out.seed;
                pfamily(*n, 4, seed, &mut |idx| conv(&syms::<Dna>(idx), *s, out));
            } else {
                conv(&syms::<Dna>(&bg(*n, 4, 30 + *s as u64, out.seed)), *s, out);
            }
        }
        Case::ConvArray { n } => {
            let content = syms::<Dna>(&bg(*n, 4, 31, out.seed));
            macro_rules! arr {
                ($($k:literal),*) => { match *n { $($k => conv_array::<$k>(&content, out),)* _ => out.violation("MACHINERY/array-n", format!("{n}")) } };
            }
            arr!(0, 1, 2, 3, 5, 31, 32, 33, 64, 65, 96);
        }
        Case::TrimMix { cid, .. } | Case::TrimRuns { cid, .. } | Case::TrimUtf8 { cid, .. } => dispatch!(*cid, trim_g(c, out)),
    }
}

fn text_to_dna(b: u8, out: &mut Out) {
    out.stage = "dna::Dna::try_from(text::Dna)";
    let t = TDna::unsafe_from_bits(b);
    let got = out.catch(|| Dna::try_from(t));
    let want_ok = matches!(b, b'A' | b'C' | b'G' | b'T');
    match &got {
        Ok(Ok(d)) => {
            out.check(want_ok && d.to_char() as u8 == b, || {
                (
                    if want_ok { "text->dna/wrong-base".to_string() } else { "text->dna/accepts-non-ACGT".to_string() },
                    format!("Dna::try_from(text {:#04x} {:?}) = Ok({:?})", b, b as char, d),
                )
            });
        }
        Ok(Err(e)) => {
            out.check(!want_ok, || ("text->dna/rejects-ACGT".to_string(), format!("Dna::try_from(text {:?}) = Err({:?})", b as char, e)));
        }
        Err(m) => {
            out.checks += 1;
            out.violation("text->dna/panics", format!("Dna::try_from(text {:#04x}) panicked: {m}", b));
        }
    }
    out.observe(&(0u8, b, matches!(got, Ok(Ok(_)))));
}

fn conv_check<B: Codec>(what: &str, r: Result<Seq<B>, String>, content: &[Dna], out: &mut Out) {
    let text = show(content);
    let ok = matches!(&r, Ok(x) if x.len() == content.len() && x.to_string() == text && x.iter().take(content.len() + 3).map(|a| a.to_char()).collect::<String>() == text);
    out.check(ok, || {
        (
            format!("convert/{what}/letters-not-preserved"),
            format!("{what} of DNA {} gives {:?}", show_cut(content), r.as_ref().map(|x| render(x))),
        )
    });
}

fn conv(content: &[Dna], s: usize, out: &mut Out) {
    out.units += 1;
    let pl = place(content, s, 0);
    let v = pl.view();
    let owned = build(content);
    out.dim("len", content.len() as i64);
    out.dim("view_bit_offset", ((s * 2) % 64) as i64);
    out.stage = "Seq<Iupac>::from(&SeqSlice<Dna>)";
    let r = out.catch(|| Seq::<Iupac>::from(v));
    conv_check("slice->iupac", r, content, out);
    out.stage = "Seq<text::Dna>::from(&SeqSlice<Dna>)";
    let r = out.catch(|| Seq::<TDna>::from(v));
    conv_check("slice->text", r, content, out);
    out.stage = "Seq<Dna>::from(&SeqSlice<Dna>)";
    let r = out.catch(|| Seq::<Dna>::from(v));
    conv_check("slice->dna", r, content, out);
    out.stage = "Seq<Iupac>::from(seq.as_ref())";
    let r = out.catch(|| {
        let x: Seq<Iupac> = owned.as_ref().into();
        x
    });
    conv_check("seq->iupac", r, content, out);
    let r = out.catch(|| {
        let x: Seq<TDna> = (&*owned).into();
        x
    });
    conv_check("seq->text", r, content, out);
    // and back: text -> dna symbol by symbol restores the DNA
    out.stage = "text -> dna per symbol";
    let r = out.catch(|| {
        let t: Seq<TDna> = v.into();
        t.iter().take(content.len() + 3).map(Dna::try_from).collect::<Result<Vec<Dna>, _>>()
    });
    out.check(matches!(&r, Ok(Ok(d)) if d[..] == *content), || {
        ("convert/slice->text->dna/not-restored".to_string(), format!("DNA {} -> text -> DNA gives {:?}", show_cut(content), r.as_ref().map(|x| x.as_ref().map(|d| show_cut(d)))))
    });
    out.observe(&(1u8, content.len(), content.first().map(|a| a.to_bits())));
}

fn conv_array<const N: usize>(content: &[Dna], out: &mut Out) {
    out.units += 1;
    let arr: SeqArray<Dna, N, 4> = array_of(content);
    out.stage = "Seq<Iupac>::from(&SeqArray<Dna>)";
    let r = out.catch(|| Seq::<Iupac>::from(&arr));
    conv_check("&array->iupac", r, content, out);
    let r = out.catch(|| Seq::<TDna>::from(&arr));
    conv_check("&array->text", r, content, out);
    let r = out.catch(|| Seq::<Dna>::from(&arr));
    conv_check("&array->dna", r, content, out);
    out.stage = "Seq<Iupac>::from(SeqArray<Dna>)";
    let r = out.catch(|| Seq::<Iupac>::from(array_of::<Dna, N, 4>(content)));
    conv_check("array->iupac", r, content, out);
    let r = out.catch(|| Seq::<TDna>::from(array_of::<Dna, N, 4>(content)));
    conv_check("array->text", r, content, out);
    let r = out.catch(|| {
        let sl: &SeqSlice<Dna> = &arr;
        Seq::<Iupac>::from(sl)
    });
    conv_check("array-deref->iupac", r, content, out);
}

/// (two accepted bytes, two rejected bytes) for the all-mixes enumeration
fn picks(sp: &Spec, pick: usize) -> ([u8; 2], [u8; 2]) {
    let acc = sp.accepted();
    let good = match pick {
        0 => [acc[0], acc[acc.len() - 1]],
        1 => [acc[acc.len() / 2], acc[1 % acc.len()]],
        _ => [acc[acc.len() - 1], acc[acc.len() / 3]],
    };
    let rej: Vec<u8> = [b'x', b'N', b'n', b' ', b'@', b'Z', 0x80u8, 0xFF, b'\n', b'1'].iter().copied().filter(|b| sp.parse(*b).is_none()).collect();
    let bad = [rej[pick % rej.len()], rej[(pick + 5) % rej.len()]];
    (good, bad)
}

fn esc(v: &[u8]) -> String {
    let s: String = v.iter().flat_map(|b| std::ascii::escape_default(*b)).map(|b| b as char).collect();
    if s.len() > 160 {
        format!("{}…({} bytes)", &s[..160], v.len())
    } else {
        s
    }
}

fn trim_one<A: Sx>(sp: &Spec, v: &[u8], out: &mut Out) {
    let cn = A::CID.name();
    out.units += 1;
    out.stage = "Seq::trim_u8";
    let got = match out.catch(|| Seq::<A>::trim_u8(v)) {
        Ok(g) => g,
        Err(m) => {
            out.checks += 1;
            out.violation(format!("{cn}/trim_u8/panics"), format!("trim_u8({:?}) panicked: {m}", esc(v)));
            return;
        }
    };
    // oracle: strict parse of the span between the first and last accepted byte
    let first = v.iter().position(|b| sp.parse(*b).is_some());
    let last = v.iter().rposition(|b| sp.parse(*b).is_some());
    let span: &[u8] = match (first, last) {
        (Some(f), Some(l)) => &v[f..=l],
        _ => &[],
    };
    let want: Result<Vec<u8>, u8> = span.iter().map(|b| sp.parse(*b).map(|i| sp.syms[i].ch).ok_or(*b)).collect();
    let ok = match (&got, &want) {
        (Ok(s), Ok(chars)) => s.len() == chars.len() && s.to_string().as_bytes() == &chars[..],
        (Err(e), Err(b)) => *e == ParseBioError::UnrecognisedBase(*b),
        _ => false,
    };
    out.check(ok, || {
        let class = match (&got, &want) {
            (Ok(_), Ok(_)) => "wrong-sequence",
            (Ok(_), Err(_)) => "accepts-interior-bad-byte",
            (Err(_), Ok(_)) => "rejects-trimmable-input",
            (Err(_), Err(_)) => "wrong-error",
        };
        (
            format!("{cn}/trim_u8/{class}"),
            format!(
                "trim_u8({:?}) = {:?}; strict parse of the span {:?} is {:?}",
                esc(v),
                got.as_ref().map(|s| render(s)),
                esc(span),
                want.as_ref().map(|c| esc(c)).map_err(|b| format!("UnrecognisedBase({b:#04x})"))
            ),
        )
    });
    // it equals what the strict parser says about the span (differential, no table)
    out.stage = "Seq::try_from(span)";
    let strict = out.catch(|| Seq::<A>::try_from(span));
    let same = match (&got, &strict) {
        (Ok(a), Ok(Ok(b))) => a == b,
        (Err(a), Ok(Err(b))) => a == b,
        _ => false,
    };
    out.check(same, || {
        (
            format!("{cn}/trim_u8/differs-from-strict-parse-of-span"),
            format!("trim_u8({:?}) = {:?} but try_from(span) = {:?}", esc(v), got.as_ref().map(|s| render(s)), strict.as_ref().map(|r| r.as_ref().map(|s| render(s)))),
        )
    });
    out.observe(&(A::CID, v.len(), got.as_ref().map(|s| s.len()).map_err(|_| 0u8)));
    out.dim("input_len", v.len() as i64);
}

fn trim_g<A: Sx>(c: &Case, out: &mut Out) {
    let sp = spec::spec(A::CID);
    match c {
        Case::TrimMix { l, pick, .. } => {
            let (good, bad) = picks(&sp, *pick);
            let cs = [good[0], good[1], bad[0], bad[1]];
            all_seqs(*l, 4, &mut |idx| {
                let v: Vec<u8> = idx.iter().map(|&i| cs[i as usize]).collect();
                trim_one::<A>(&sp, &v, out);
            });
        }
        Case::TrimUtf8 { lead, .. } => {
            let acc = sp.accepted();
            let good: Vec<u8> = (0..5).map(|x| acc[(x * 2 + 1) % acc.len()]).collect();
            let mut chars: Vec<Vec<u8>> = (0x80..=0xBFu8).map(|c| vec![*lead, c]).collect();
            if *lead == 0xC2 {
                // 3- and 4-byte characters whose scalar value has an accepted byte as its low byte
                for &a in &acc {
                    for hi in [0x0800u32, 0x2000, 0xFF00, 0x1_0000, 0x1_F600] {
                        if let Some(ch) = char::from_u32(hi | a as u32) {
                            let mut b = [0u8; 4];
                            chars.push(ch.encode_utf8(&mut b).as_bytes().to_vec());
                        }
                    }
                }
            }
            for ch in &chars {
                for layout in 0..4 {
                    let mut v: Vec<u8> = Vec::new();
                    match layout {
                        0 => {
                            v.extend(ch);
                            v.extend(&good);
                            v.extend(ch);
                        }
                        1 => {
                            v.extend(&good);
                            v.extend(ch);
                        }
                        2 => {
                            v.extend(ch);
                            v.extend(&good);
                        }
                        _ => {
                            v.extend(&good[..2]);
                            v.extend(ch);
                            v.extend(&good[2..]);
                        }
                    }
                    trim_one::<A>(&sp, &v, out);
                }
            }
        }
        Case::TrimRuns { i, j, .. } => {
            let (good, bad) = picks(&sp, 1);
            let acc = sp.accepted();
            let rl = run_lens(A::CID);
            for &k in &rl {
                for &l in &rl {
                    for &m in &rl {
                        let mut v: Vec<u8> = Vec::new();
                        v.extend(std::iter::repeat(bad[0]).take(*i));
                        v.extend((0..*j).map(|x| acc[(x * 3 + 1) % acc.len()]));
                        v.extend((0..k).map(|x| bad[x % 2]));
                        v.extend((0..l).map(|x| if x % 2 == 0 { good[0] } else { good[1] }));
                        v.extend(std::iter::repeat(bad[1]).take(m));
                        trim_one::<A>(&sp, &v, out);
                    }
                }
            }
        }
        _ => unreachable!(),
    }
}

fn main() {
    main_loop("C19", gen, run, |_| {
        json!({
            "conversions": ["&SeqSlice<Dna> -> Seq<Iupac>/Seq<text::Dna>/Seq<Dna>", "Seq<Dna> (as_ref / deref) -> Iupac/text", "&SeqArray / SeqArray (by value) / deref -> Iupac/text/Dna", "text::Dna -> dna::Dna for all 256 patterns", "DNA -> text -> DNA per symbol"],
            "trimming_oracle": "strict parse (spec table) of the span between the first and last accepted byte; plus differential against Seq::try_from(span)",
        })
    });
}
