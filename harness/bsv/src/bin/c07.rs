//! C07 — reverse, complement and reverse-complement of sequences are exact and
//! involutive; copying forms leave the receiver untouched and agree for owned
//! sequences, borrowed slices at any offset, and in-place forms on a copy.

use bsv::fixture::*;
use bsv::*;
use serde::{Deserialize, Serialize};
use serde_json::json;

#[derive(Serialize, Deserialize, Hash, Clone, Debug)]
enum Case {
    /// every sequence of length `n` over the whole alphabet whose first symbol is #`first`
    All { cid: Cid, n: usize, first: u8 },
    /// length `n` at symbol offset `s`: one pattern (quick) or the P(n) family (thorough)
    Shaped { cid: Cid, n: usize, s: usize },
    /// a long sequence (4..16 words): one pattern pair
    Long { cid: Cid, n: usize, s: usize },
    /// sequences whose packed bits hold documented ALTERNATIVE codes (built with from_raw): every code of the
    /// codec's decode table at every position of a short sequence
    AltCodes { cid: Cid, n: usize },
}

fn all_bound(t: Tier) -> f64 {
    t.pick(1.0e5, 2.0e6)
}

fn gen(t: Tier, _seed: u64, emit: &mut dyn FnMut(Case)) {
    for cid in Cid::WITH_CUSTOM {
        let bits = cid.bits();
        let m = bsv::spec::spec(cid).syms.len();
        emit(Case::All { cid, n: 0, first: 0 });
        let mut n = 1;
        while (m as f64).powi(n as i32) <= all_bound(t) && n <= 20 {
            for first in 0..m as u8 {
                emit(Case::All { cid, n, first });
            }
            n += 1;
        }
        let spw = 64 / bits;
        for n in 0..=2 * spw + 2 {
            for s in 0..noff(bits) {
                emit(Case::Shaped { cid, n, s });
            }
        }
        for n in long_lengths(bits) {
            for s in [0usize, 1, noff(bits) / 2 + 1, noff(bits) - 1] {
                emit(Case::Long { cid, n, s });
            }
        }
        for n in huge_lengths(bits) {
            for s in [0usize, 1] {
                emit(Case::Long { cid, n, s });
            }
        }
        if !bsv::spec::spec(cid).syms.iter().all(|s| s.alts.is_empty()) {
            for n in [1usize, 2, 3, spw, spw + 1] {
                emit(Case::AltCodes { cid, n });
            }
        }
        if t.thorough() {
            for n in [3 * spw - 1, 3 * spw, 3 * spw + 1, 4 * spw + 1] {
                for s in 0..noff(bits) {
                    emit(Case::Shaped { cid, n, s });
                }
            }
        }
    }
}

fn run(c: &Case, out: &mut Out) {
    match c {
        Case::All { cid, .. } | Case::Shaped { cid, .. } | Case::Long { cid, .. } | Case::AltCodes { cid, .. } => dispatch!(*cid, run_g(c, out)),
    }
}

fn run_g<A: Sx>(c: &Case, out: &mut Out) {
    let m = alphabet::<A>().len();
    match c {
        Case::All { n, first, .. } => {
            if *n == 0 {
                one::<A>(&[], 0, 0, out);
                one::<A>(&[], 3, 1, out);
                return;
            }
            let mut idx = vec![*first; *n];
            all_seqs(*n - 1, m, &mut |rest| {
                idx[1..].copy_from_slice(rest);
                let content = syms::<A>(&idx);
                // offsets rotate with the content so that every offset class meets many contents
                let s = (rest.iter().map(|&x| x as usize).sum::<usize>() + *first as usize) % noff(A::BITS as usize);
                one::<A>(&content, s, (s * 7 + 1) % noff(A::BITS as usize), out);
            });
        }
        Case::AltCodes { n, .. } => {
            // every decodable code (canonical or alternative) at every position
            let decodable: Vec<u8> = (0..=255u8).filter(|c| (*c as usize) < (1usize << A::BITS) && A::try_from_bits(*c).is_some()).collect();
            let base: Vec<u8> = (0..*n).map(|i| decodable[(i * 5 + 1) % decodable.len()]).collect();
            let mut cs = base.clone();
            for pos in 0..*n {
                for &c in &decodable {
                    cs[pos] = c;
                    alt_one::<A>(&cs, out);
                }
                cs[pos] = base[pos];
            }
        }
        Case::Long { n, s, .. } => {
            let nof = noff(A::BITS as usize);
            for variant in 0..(if *n > 1100 { 1 } else { 2 }) {
                let content = syms::<A>(&bg(*n, m, 300 + variant + 10 * (*s as u64), out.seed));
                one::<A>(&content, *s, (*s + nof / 2 + 1) % nof, out);
            }
        }
        Case::Shaped { n, s, .. } => {
            let nof = noff(A::BITS as usize);
            if out.tier.thorough() {
                let seed = out.seed;
                pfamily(*n, m, seed, &mut |idx| {
                    let content = syms::<A>(idx);
                    one::<A>(&content, *s, (*s + nof / 2 + 1) % nof, out);
                });
            } else {
                for variant in 0..2 {
                    let content = syms::<A>(&bg(*n, m, variant + 10 * (*s as u64), out.seed));
                    one::<A>(&content, *s, (*s + nof / 2 + 1) % nof, out);
                }
            }
        }
    }
}

/// A sequence given by raw codes (possibly alternative ones), built with from_raw: reverse keeps each
/// symbol, complement gives the complement of the symbol each code decodes to.
fn alt_one<A: Sx>(codes_in: &[u8], out: &mut Out) {
    let cn = A::CID.name();
    out.units += 1;
    let words: Vec<usize> = bsv::model::pack_words(codes_in, A::BITS as usize).iter().map(|w| *w as usize).collect();
    let Some(seq) = Seq::<A>::from_raw(codes_in.len(), &words) else { return };
    let syms_in: Vec<A> = codes_in.iter().map(|c| A::try_from_bits(*c).unwrap()).collect();
    out.stage = "operations on a sequence holding alternative codes";
    let rev: Vec<A> = syms_in.iter().rev().copied().collect();
    let r = out.catch(|| read(&seq_to_rev(&seq)));
    out.check(r.as_ref().ok() == Some(&rev), || (format!("{cn}/alt-codes/to_rev-wrong"), format!("to_rev of codes {codes_in:?} ({}) = {:?}", show(&syms_in), r.as_ref().map(|v| show(v)))));
    if A::HAS_COMP {
        let cm: Vec<A> = syms_in.iter().map(|a| a.comp1().unwrap()).collect();
        let rc: Vec<A> = cm.iter().rev().copied().collect();
        let r = out.catch(|| read(&A::seq_to_comp(&seq).unwrap()));
        out.check(r.as_ref().ok() == Some(&cm), || (format!("{cn}/alt-codes/to_comp-wrong"), format!("to_comp of codes {codes_in:?} ({}) = {:?}, want {}", show(&syms_in), r.as_ref().map(|v| show(v)), show(&cm))));
        let r = out.catch(|| read(&A::slice_to_revcomp(&seq).unwrap()));
        out.check(r.as_ref().ok() == Some(&rc), || (format!("{cn}/alt-codes/to_revcomp-wrong"), format!("to_revcomp of codes {codes_in:?} = {:?}, want {}", r.as_ref().map(|v| show(v)), show(&rc))));
        let r = out.catch(|| {
            let mut c = seq.clone();
            A::seq_comp(&mut c);
            A::seq_comp(&mut c);
            read(&c)
        });
        out.check(r.as_ref().ok() == Some(&syms_in), || (format!("{cn}/alt-codes/comp-twice-not-identity"), format!("comp twice of codes {codes_in:?} = {:?}", r.as_ref().map(|v| show(v)))));
    }
    if A::HAS_MASK {
        let mm: Vec<A> = syms_in.iter().map(|a| a.mask1().unwrap()).collect();
        let r = out.catch(|| read(&A::seq_to_mask(&seq).unwrap()));
        out.check(r.as_ref().ok() == Some(&mm), || (format!("{cn}/alt-codes/to_mask-wrong"), format!("to_mask of codes {codes_in:?} = {:?}, want {}", r.as_ref().map(|v| show(v)), show(&mm))));
    }
}

/// One content: as a slice at symbol offset `s`, as a freshly built owned
/// sequence, and as an owned sequence copied out of a slice at offset `ph`.
fn one<A: Sx>(content: &[A], s: usize, ph: usize, out: &mut Out) {
    let cn = A::CID.name();
    out.units += 1;
    let n = content.len();
    let pl = place(content, s, 0);
    let fresh = build(content);
    let copied = owned_headed(content, ph);
    out.dim("len", n as i64);
    out.dim("view_bit_offset", ((s * A::BITS as usize) % 64) as i64);
    if let Some(h) = head_of(&copied) {
        out.dim("owned_head_bit", h as i64);
    }
    let parent_text = pl.parent.to_string();
    let fresh_raw: Vec<usize> = fresh.into_raw().to_vec();
    let copied_raw: Vec<usize> = copied.into_raw().to_vec();

    let rev_model: Vec<A> = content.iter().rev().copied().collect();
    let comp_model: Option<Vec<A>> = if A::HAS_COMP { content.iter().map(|a| a.comp1()).collect() } else { None };
    let revcomp_model: Option<Vec<A>> = comp_model.as_ref().map(|c| c.iter().rev().copied().collect());

    macro_rules! expect {
        ($stage:expr, $what:expr, $r:expr, $want:expr) => {{
            out.stage = $stage;
            let r = out.catch(|| $r);
            let ok = matches!(&r, Ok(x) if matches(x, $want));
            out.check(ok, || {
                (
                    format!("{cn}/{}/wrong-result", $what),
                    format!(
                        "{} of {} (slice offset {s}, copy offset {ph}) = {:?}, want {}",
                        $what,
                        show_cut(content),
                        r.as_ref().map(|x| render(x)),
                        show_cut($want)
                    ),
                )
            });
            r.ok()
        }};
    }

    // ---- reverse ---------------------------------------------------------------------
    let r1 = expect!("to_rev(&SeqSlice)", "slice.to_rev", slice_to_rev(pl.view()), &rev_model);
    expect!("to_rev(&Seq)", "seq.to_rev", seq_to_rev(&fresh), &rev_model);
    expect!("to_rev(&Seq copied from offset)", "copied-seq.to_rev", seq_to_rev(&copied), &rev_model);
    expect!("rev(&mut clone)", "clone.rev", { let mut c = fresh.clone(); seq_rev(&mut c); c }, &rev_model);
    expect!("rev(&mut copied clone)", "copied-clone.rev", { let mut c = copied.clone(); seq_rev(&mut c); c }, &rev_model);
    if let Some(r1) = r1 {
        expect!("to_rev twice", "to_rev.to_rev", seq_to_rev(&r1), content);
        expect!("rev in place twice", "rev.rev", { let mut c = r1.clone(); seq_rev(&mut c); c }, content);
    }

    // ---- complement, reverse complement ---------------------------------------------------
    if let (Some(cm), Some(rcm)) = (&comp_model, &revcomp_model) {
        let c1 = expect!("to_comp(&SeqSlice)", "slice.to_comp", A::slice_to_comp(pl.view()).unwrap(), cm);
        expect!("to_comp(&Seq)", "seq.to_comp", A::seq_to_comp(&fresh).unwrap(), cm);
        expect!("to_comp(&Seq copied from offset)", "copied-seq.to_comp", A::seq_to_comp(&copied).unwrap(), cm);
        expect!("comp(&mut clone)", "clone.comp", { let mut c = fresh.clone(); A::seq_comp(&mut c); c }, cm);
        expect!("comp(&mut copied clone)", "copied-clone.comp", { let mut c = copied.clone(); A::seq_comp(&mut c); c }, cm);
        let rc1 = expect!("to_revcomp(&SeqSlice)", "slice.to_revcomp", A::slice_to_revcomp(pl.view()).unwrap(), rcm);
        expect!("to_revcomp(&Seq)", "seq.to_revcomp", A::seq_to_revcomp(&fresh).unwrap(), rcm);
        expect!("to_revcomp(&Seq copied from offset)", "copied-seq.to_revcomp", A::seq_to_revcomp(&copied).unwrap(), rcm);
        expect!("revcomp(&mut clone)", "clone.revcomp", { let mut c = fresh.clone(); A::seq_revcomp(&mut c); c }, rcm);
        expect!("revcomp(&mut copied clone)", "copied-clone.revcomp", { let mut c = copied.clone(); A::seq_revcomp(&mut c); c }, rcm);
        if let Some(c1) = c1 {
            expect!("to_comp twice", "to_comp.to_comp", A::seq_to_comp(&c1).unwrap(), content);
            // either order of composition
            expect!("to_comp then to_rev", "to_comp.to_rev", seq_to_rev(&c1), rcm);
        }
        if let Some(rc1) = rc1 {
            expect!("to_revcomp twice", "to_revcomp.to_revcomp", A::seq_to_revcomp(&rc1).unwrap(), content);
        }
        expect!("to_rev then to_comp", "to_rev.to_comp", A::seq_to_comp(&seq_to_rev(&fresh)).unwrap(), rcm);
    }

    // ---- "equals either order of composition": the real ==, in both directions, and the hasher input -----
    if A::HAS_COMP {
        out.stage = "to_revcomp == to_comp.to_rev == to_rev.to_comp (==, hash)";
        let r = out.catch(|| {
            let rc_slice = A::slice_to_revcomp(pl.view()).unwrap();
            let rc_seq = A::seq_to_revcomp(&fresh).unwrap();
            let a = seq_to_rev(&A::seq_to_comp(&fresh).unwrap());
            let b = A::seq_to_comp(&seq_to_rev(&fresh)).unwrap();
            let mut c = fresh.clone();
            A::seq_comp(&mut c);
            seq_rev(&mut c);
            let mut d = copied.clone();
            A::seq_revcomp(&mut d);
            let expect = build(revcomp_model.as_ref().unwrap());
            let all = [&rc_slice, &rc_seq, &a, &b, &c, &d];
            let eq = all.iter().all(|x| **x == expect && expect == **x && **x == rc_slice);
            let h = bsv::rec::stream(&expect).bytes;
            let hash = all.iter().all(|x| bsv::rec::stream(*x).bytes == h);
            let comp_eq = A::seq_to_comp(&fresh).unwrap() == build(comp_model.as_ref().unwrap()) && A::slice_to_comp(pl.view()).unwrap() == build(comp_model.as_ref().unwrap());
            (eq, hash, comp_eq)
        });
        out.check(r == Ok((true, true, true)), || {
            (
                format!("{cn}/revcomp/forms-not-equal-to-each-other"),
                format!("{} (offset {s}): (all revcomp forms ==, same hasher input, to_comp == sequence of complements) = {:?}", show_cut(content), r),
            )
        });
    }
    {
        out.stage = "to_rev == sequence of reversed symbols (==, hash)";
        let r = out.catch(|| {
            let expect = build(&rev_model);
            let a = slice_to_rev(pl.view());
            let b = seq_to_rev(&copied);
            a == expect && b == expect && expect == a && bsv::rec::stream(&a).bytes == bsv::rec::stream(&expect).bytes
        });
        out.check(r == Ok(true), || (format!("{cn}/rev/result-not-equal-to-built-sequence"), format!("{} (offset {s}): {:?}", show_cut(content), r)));
    }

    // ---- the copying forms left their receivers untouched ------------------------------------
    out.stage = "receiver unchanged";
    out.check(matches(pl.view(), content) && pl.parent.to_string() == parent_text, || {
        (format!("{cn}/receiver/slice-or-parent-changed"), format!("slice {} or its parent changed after copying forms", show_cut(content)))
    });
    out.check(matches(&fresh, content) && fresh.into_raw() == &fresh_raw[..], || {
        (format!("{cn}/receiver/owned-changed"), format!("owned {} changed (text or raw image) after copying forms", show_cut(content)))
    });
    out.check(matches(&copied, content) && copied.into_raw() == &copied_raw[..], || {
        (format!("{cn}/receiver/copied-owned-changed"), format!("offset-copied owned {} changed after copying forms", show_cut(content)))
    });
    out.observe(&(A::CID, n, content.first().map(|a| a.to_bits()), content.last().map(|a| a.to_bits())));
}

fn main() {
    main_loop("C07", gen, run, |t| {
        json!({
            "all_contents_bound": all_bound(t),
            "forms": ["&SeqSlice::to_rev/to_comp/to_revcomp", "&Seq::to_*", "&Seq(copied from an offset slice)::to_*", "in-place rev/comp/revcomp on a clone", "twice = identity", "rev∘comp = comp∘rev = revcomp"],
            "complement_oracle": "the codec's own symbol-level ComplementMut applied position-wise (tables themselves are C05's business)",
        })
    });
}
