//! C14 — ambiguous-codon translation is sound and complete; reverse
//! translation is exact.  Finite, enumerated completely: all 16^3 IUPAC codons
//! at every slice offset, all 21 amino symbols, invalid lengths 0,1,2,4,5.
//! The two lazily built tables are process-wide `OnceLock`s, so the driver runs
//! this binary once per first-touch order (`--opt first=amino|codon`).

use bio_seq::translation::{PartialTranslationTable, TranslationError, STANDARD};
use bsv::fixture::*;
use bsv::spec;
use bsv::*;
use serde::{Deserialize, Serialize};
use serde_json::json;

#[derive(Serialize, Deserialize, Hash, Clone, Debug)]
enum Case {
    /// a three-symbol IUPAC codon (indices into items()) as a slice at offset `s`
    Codon3 { c: [u8; 3], s: usize, ph: usize },
    /// a codon of another length
    BadLen { idx: Vec<u8>, s: usize },
    /// reverse translation of the i-th amino symbol
    Amino { i: usize },
    /// depth-2 call sequences: prime with codon `c`, then query a related codon held in the SAME storage
    /// (one scratch buffer rewritten in place) - state kept between calls must not leak into the answer
    Pair { c: [u8; 3] },
}

fn gen(t: Tier, seed: u64, emit: &mut dyn FnMut(Case)) {
    for i in 0..21 + 2 {
        emit(Case::Amino { i });
    }
    for c0 in 0..16u8 {
        for c1 in 0..16u8 {
            for c2 in 0..16u8 {
                for s in 0..16 {
                    emit(Case::Codon3 { c: [c0, c1, c2], s, ph: 0 });
                }
                emit(Case::Codon3 { c: [c0, c1, c2], s: 15, ph: 7 });
            }
        }
    }
    for c0 in 0..16u8 {
        for c1 in 0..16u8 {
            for c2 in 0..16u8 {
                emit(Case::Pair { c: [c0, c1, c2] });
            }
        }
    }
    for n in [0usize, 1, 2] {
        all_seqs(n, 16, &mut |v| {
            for s in [0usize, 15] {
                emit(Case::BadLen { idx: v.to_vec(), s });
            }
        });
    }
    // every other length up to 300 with one pattern (a length check computed in a narrower integer wraps somewhere here)
    for n in 6..=300usize {
        emit(Case::BadLen { idx: bsv::fixture::bg(n, 16, 9, seed), s: n % 16 });
    }
    for n in [4usize, 5, 6, 16, 17] {
        if t.thorough() && n == 4 {
            all_seqs(4, 16, &mut |v| emit(Case::BadLen { idx: v.to_vec(), s: 13 }));
        }
        pfamily(n, 16, seed, &mut |v| {
            for s in [0usize, 14] {
                emit(Case::BadLen { idx: v.to_vec(), s });
            }
        });
    }
}

/// nucleotide set (oracle mask) of an IUPAC symbol, by its *letter*
fn set_of(a: Iupac) -> u8 {
    spec::iupac_set_of_letter(a.to_char() as u8).expect("IUPAC letter")
}

/// every concrete codon (base indices) matched by an IUPAC codon
fn expand(c: &[Iupac]) -> Vec<[u8; 3]> {
    let bases = |m: u8| -> Vec<u8> { (0..4u8).filter(|b| m & [spec::SA, spec::SC, spec::SG, spec::ST][*b as usize] != 0).collect() };
    let mut v = Vec::new();
    for x in bases(set_of(c[0])) {
        for y in bases(set_of(c[1])) {
            for z in bases(set_of(c[2])) {
                v.push([x, y, z]);
            }
        }
    }
    v
}

/// what the property demands for a codon: Some(Ok(letter)) / Some(Err(kind)); None = only "does not panic"
/// (three symbols with a gap among them)
fn expected(c: &[Iupac]) -> Option<Result<u8, &'static str>> {
    if c.len() != 3 {
        return Some(Err("InvalidCodon"));
    }
    if c.iter().any(|a| set_of(*a) == 0) {
        return None;
    }
    let aminos: std::collections::BTreeSet<u8> = expand(c).iter().map(|b| spec::ncbi_amino(b[0], b[1], b[2])).collect();
    Some(if aminos.len() == 1 { Ok(*aminos.iter().next().unwrap()) } else { Err("AmbiguousTranslation") })
}

fn class(e: &TranslationError<Iupac, Amino>) -> &'static str {
    match e {
        TranslationError::AmbiguousCodon(_) => "AmbiguousCodon",
        TranslationError::AmbiguousTranslation(_) => "AmbiguousTranslation",
        TranslationError::InvalidCodon(_) => "InvalidCodon",
        TranslationError::InvalidAmino(_) => "InvalidAmino",
    }
}

fn run(c: &Case, out: &mut Out) {
    match c {
        Case::Codon3 { c, s, ph } => {
            let content: Vec<Iupac> = syms::<Iupac>(c);
            let pl = if *ph == 0 { place(&content, *s, 0) } else { place_headed(&content, *s, 0, *ph) };
            out.stage = "STANDARD.try_to_amino";
            let got = match out.catch(|| STANDARD.try_to_amino(pl.view())) {
                Ok(g) => g,
                Err(m) => {
                    out.checks += 1;
                    out.violation("STANDARD/try_to_amino/panics", format!("try_to_amino({}) panicked: {m}", show(&content)));
                    return;
                }
            };
            let gapfree = content.iter().all(|a| set_of(*a) != 0);
            out.dim("bit_offset", ((*s * 4) % 64) as i64);
            out.observe(&(c, got.as_ref().map(|a| a.to_char()).map_err(class)));
            if !gapfree {
                out.checks += 1;
                out.count("codons_with_gap(no-panic only)", 1);
                return;
            }
            let ex = expand(&content);
            let aminos: std::collections::BTreeSet<u8> = ex.iter().map(|b| spec::ncbi_amino(b[0], b[1], b[2])).collect();
            let want: Option<u8> = if aminos.len() == 1 { aminos.iter().next().copied() } else { None };
            match (&got, want) {
                (Ok(a), Some(w)) => {
                    out.check(a.to_char() as u8 == w, || {
                        (
                            "STANDARD/try_to_amino/wrong-amino".into(),
                            format!("try_to_amino({}) = {:?}; every matching codon codes for {:?}", show(&content), a, w as char),
                        )
                    });
                }
                (Ok(a), None) => {
                    out.checks += 1;
                    out.violation(
                        "STANDARD/try_to_amino/unsound-translates-ambiguous-codon",
                        format!(
                            "try_to_amino({}) = {:?} but the matching codons code for {:?}",
                            show(&content),
                            a,
                            aminos.iter().map(|x| *x as char).collect::<String>()
                        ),
                    );
                }
                (Err(e), Some(w)) => {
                    out.checks += 1;
                    out.violation(
                        "STANDARD/try_to_amino/incomplete-refuses-unambiguous-codon",
                        format!("try_to_amino({}) = Err({}) but every matching codon codes for {:?}", show(&content), class(e), w as char),
                    );
                }
                (Err(e), None) => {
                    out.check(matches!(e, TranslationError::AmbiguousTranslation(_)), || {
                        (
                            "STANDARD/try_to_amino/wrong-error-kind".into(),
                            format!("try_to_amino({}) = Err({}), expected AmbiguousTranslation", show(&content), class(e)),
                        )
                    });
                    if let TranslationError::AmbiguousTranslation(p) = e {
                        if p.to_string() != show(&content) {
                            out.count("error-payload-differs-from-input(non-deciding)", 1);
                        }
                    }
                }
            }
        }
        Case::BadLen { idx, s } => {
            let content: Vec<Iupac> = syms::<Iupac>(idx);
            let pl = place(&content, *s, 0);
            out.stage = "STANDARD.try_to_amino(len != 3)";
            let got = out.catch(|| STANDARD.try_to_amino(pl.view()));
            let ok = matches!(&got, Ok(Err(TranslationError::InvalidCodon(_))));
            out.check(ok, || {
                (
                    "STANDARD/try_to_amino/bad-length-not-invalid-codon".into(),
                    format!(
                        "try_to_amino({:?}) (length {}) = {:?}, expected Err(InvalidCodon)",
                        show(&content),
                        content.len(),
                        got.as_ref().map(|r| r.as_ref().map(|a| a.to_char()).map_err(class))
                    ),
                )
            });
            out.dim("bad_len", content.len() as i64);
            out.observe(&(idx.len(), ok));
        }
        Case::Pair { c } => {
            let iu = alphabet::<Iupac>();
            let gap: Vec<Iupac> = iu.iter().copied().filter(|a| set_of(*a) == 0).collect();
            let c1: Vec<Iupac> = syms::<Iupac>(c);
            // the family of second queries
            let mut fam: Vec<Vec<Iupac>> = vec![vec![], vec![c1[2]], c1[..2].to_vec(), c1[1..].to_vec(), vec![c1[2], c1[1], c1[0]], [&c1[..], &c1[..]].concat()];
            for g in gap.iter().copied() {
                for k in [1usize, 2, 3, 5, 13, 14] {
                    fam.push(std::iter::repeat(g).take(k).chain(c1.iter().copied()).collect());
                    fam.push(c1.iter().copied().chain(std::iter::repeat(g).take(k)).collect());
                }
            }
            for pos in 0..3 {
                for &x in &iu {
                    if x != c1[pos] {
                        let mut v = c1.clone();
                        v[pos] = x;
                        fam.push(v);
                    }
                }
            }
            out.stage = "try_to_amino(c1) then try_to_amino(c2) over the same storage";
            let mut buf: Seq<Iupac> = Seq::with_capacity(64);
            let mut ask = |content: &[Iupac], out: &mut Out, what: &str| {
                let got = out.catch(|| {
                    buf.clear();
                    buf.extend(content.iter().copied());
                    STANDARD.try_to_amino(&buf).map(|a| a.to_char() as u8).map_err(|e| class(&e))
                });
                let ok = match (&got, expected(content)) {
                    (Err(_), _) => false,
                    (Ok(_), None) => true,
                    (Ok(g), Some(w)) => *g == w,
                };
                out.check(ok, || {
                    (
                        if what == "priming call" {
                            "STANDARD/try_to_amino/wrong-answer [call on a reused scratch buffer]".to_string()
                        } else {
                            format!("STANDARD/try_to_amino/answer-depends-on-earlier-call [{what}]")
                        },
                        format!(
                            "after try_to_amino({}) on the same buffer, try_to_amino({:?}) (length {}) = {:?}, expected {:?}",
                            show(&c1),
                            show(content),
                            content.len(),
                            got.as_ref().map(|r| r.map(|x| x as char)),
                            expected(content).map(|r| r.map(|x| x as char))
                        ),
                    )
                });
            };
            for c2 in &fam {
                ask(&c1, out, "priming call");
                ask(c2, out, if c2.len() == 3 { "second call, three symbols" } else { "second call, other length" });
            }
            // and over a slice of a longer parent at the same position (the parent rewritten in place)
            let mut parent: Seq<Iupac> = std::iter::repeat(iu[iu.len() - 1]).take(5).chain(c1.iter().copied()).chain(std::iter::repeat(iu[1]).take(4)).collect();
            for c2 in fam.iter().filter(|v| v.len() == 3) {
                for (which, content) in [(0, &c1), (1, c2)] {
                    let got = out.catch(|| {
                        parent.truncate(5);
                        parent.extend(content.iter().copied());
                        parent.extend([iu[1], iu[2]]);
                        STANDARD.try_to_amino(&parent[5..8]).map(|a| a.to_char() as u8).map_err(|e| class(&e))
                    });
                    let ok = match (&got, expected(content)) {
                        (Err(_), _) => false,
                        (Ok(_), None) => true,
                        (Ok(g), Some(w)) => *g == w,
                    };
                    out.check(ok, || {
                        (
                            format!("STANDARD/try_to_amino/answer-depends-on-earlier-call [slice of a rewritten parent, call {which}]"),
                            format!("after try_to_amino({}), try_to_amino({}) at the same position of the same parent = {:?}, expected {:?}", show(&c1), show(content), got.as_ref().map(|r| r.map(|x| x as char)), expected(content).map(|r| r.map(|x| x as char))),
                        )
                    });
                }
            }
            out.dim("pair_family", fam.len() as i64);
            out.observe(&(c, fam.len()));
        }
        Case::Amino { i } => {
            let al = alphabet::<Amino>();
            let Some(&a) = al.get(*i) else { return };
            let ch = a.to_char() as u8;
            // oracle: all gap-free IUPAC codons whose expansion is exactly the codon set of `a`
            let iu = alphabet::<Iupac>();
            let mut target: Vec<[u8; 3]> = Vec::new();
            for x in 0..4u8 {
                for y in 0..4u8 {
                    for z in 0..4u8 {
                        if spec::ncbi_amino(x, y, z) == ch {
                            target.push([x, y, z]);
                        }
                    }
                }
            }
            target.sort();
            let mut exact: Vec<String> = Vec::new();
            for &x in &iu {
                for &y in &iu {
                    for &z in &iu {
                        if set_of(x) == 0 || set_of(y) == 0 || set_of(z) == 0 {
                            continue;
                        }
                        let mut e = expand(&[x, y, z]);
                        e.sort();
                        if e == target {
                            exact.push(show(&[x, y, z]));
                        }
                    }
                }
            }
            out.stage = "STANDARD.try_to_codon";
            let got = match out.catch(|| STANDARD.try_to_codon(a)) {
                Ok(g) => g,
                Err(m) => {
                    out.checks += 1;
                    out.violation("STANDARD/try_to_codon/panics", format!("try_to_codon({:?}) panicked: {m}", a));
                    return;
                }
            };
            out.observe(&(ch, got.as_ref().map(|s| s.to_string()).map_err(class)));
            match (&got, exact.len()) {
                (Ok(c), 1) => {
                    out.check(c.to_string() == exact[0], || {
                        (
                            "STANDARD/try_to_codon/wrong-codon".into(),
                            format!("try_to_codon({:?}) = {c}, the codon matching exactly its codons is {}", ch as char, exact[0]),
                        )
                    });
                    out.stage = "try_to_amino(try_to_codon(a))";
                    let back = out.catch(|| STANDARD.try_to_amino(c));
                    out.check(matches!(&back, Ok(Ok(b)) if *b == a), || {
                        (
                            "STANDARD/try_to_codon/does-not-translate-back".into(),
                            format!("try_to_codon({:?}) = {c} translates back to {:?}", ch as char, back.as_ref().map(|r| r.as_ref().map(|x| x.to_char()).map_err(class))),
                        )
                    });
                }
                (Ok(c), _) => {
                    out.checks += 1;
                    out.violation(
                        "STANDARD/try_to_codon/returns-codon-for-ambiguous-amino",
                        format!("try_to_codon({:?}) = {c} but no single IUPAC codon matches all and only its {} codons", ch as char, target.len()),
                    );
                }
                (Err(e), 1) => {
                    out.checks += 1;
                    out.violation(
                        "STANDARD/try_to_codon/refuses-exact-amino",
                        format!("try_to_codon({:?}) = Err({}) but {} matches exactly its codons", ch as char, class(e), exact[0]),
                    );
                }
                (Err(e), _) => {
                    out.check(matches!(e, TranslationError::AmbiguousCodon(_)), || {
                        (
                            "STANDARD/try_to_codon/wrong-error-kind".into(),
                            format!("try_to_codon({:?}) = Err({}), expected AmbiguousCodon", ch as char, class(e)),
                        )
                    });
                }
            }
        }
    }
}

fn main() {
    // first-touch order of the two process-wide lazy tables
    match bsv::run::opt("first").as_deref() {
        Some("codon") => {
            let _ = STANDARD.try_to_codon(Amino::A);
        }
        Some("amino") => {
            let s: Seq<Iupac> = "GCN".try_into().unwrap();
            let _ = STANDARD.try_to_amino(&s);
        }
        _ => {}
    }
    main_loop("C14", gen, run, |_| {
        json!({
            "exhaustive": true,
            "first_touch": bsv::run::opt("first"),
            "space": "16^3 IUPAC codons x 16 slice offsets (+1 non-zero parent head): exact clause on the 15^3 gap-free ones, no-panic on the rest; 21 amino symbols; lengths 0,1,2 exhaustively and 4,5,6,16,17 by the P(n) family for InvalidCodon; depth-2 call sequences: every one of the 16^3 codons as a priming call followed by each member of a family of related second queries (prefix/suffix, reversed, doubled, gap-padded front/back by 1,2,3,5,13,14, every single-position substitution) written into the same storage (a reused scratch buffer; a slice of a rewritten parent)",
            "oracle": "computed from NCBI table 1: expand the IUPAC codon to concrete codons via the IUPAC nomenclature",
        })
    });
}
