//! C06 — editing an owned sequence behaves like editing a list of symbols.
//! E1: explicit-state model checking of the real `Seq` against a `Vec` model.
//!
//! Three explorations (DESIGN.md, C06): (1) fixpoint under a length horizon —
//! every reachable (content, raw image, head) state and every transition out of
//! it; (2) boundary — from seeds of every word-boundary length, bounded depth,
//! arguments near word boundaries and ends; (3) stateless — the same alphabet
//! without state deduplication, bounded depth.

use bsv::explore::{bfs, System};
use bsv::fixture::*;
use bsv::rec;
use bsv::run::catch;
use bsv::*;
use serde::{Deserialize, Serialize};
use serde_json::json;
use std::borrow::ToOwned;
use std::ops::Bound;

#[derive(Serialize, Deserialize, Hash, Clone, Debug)]
enum Case {
    /// BFS to fixpoint under length horizon `l` from the empty sequence (seed 0) or from a short
    /// sequence copied out of an offset slice (seed k > 0: offset k)
    Fixpoint { cid: Cid, l: usize, seed: usize },
    /// BFS of depth `depth` from a seed of length `n` (headed: copied from an offset slice)
    Boundary { cid: Cid, n: usize, headed: bool, depth: usize },
    /// BFS without deduplication from the empty sequence, depth `depth`
    Stateless { cid: Cid, depth: usize },
}

fn gen(t: Tier, _seed: u64, emit: &mut dyn FnMut(Case)) {
    for cid in Cid::WITH_CUSTOM {
        let l = t.pick(5, 6);
        for seed in 0..3 {
            emit(Case::Fixpoint { cid, l, seed });
        }
        if t.thorough() {
            // one level deeper from the empty sequence
            emit(Case::Fixpoint { cid, l: 7, seed: 0 });
        }
        for n in wb_lengths(cid.bits(), t.pick(2, 3)) {
            for headed in [false, true] {
                emit(Case::Boundary { cid, n, headed, depth: 2 });
            }
        }
        // a deeper boundary exploration from the seeds that sit exactly on a word boundary
        for n in long_lengths(cid.bits()) {
            emit(Case::Boundary { cid, n, headed: n % 2 == 0, depth: 1 });
        }
        for n in huge_lengths(cid.bits()).into_iter().filter(|n| *n <= 9000).step_by(2) {
            emit(Case::Boundary { cid, n, headed: n % 2 == 0, depth: 1 });
        }
        if t.thorough() {
            for m in 1..=2 {
                emit(Case::Boundary { cid, n: 64 * m / cid.bits(), headed: m == 2, depth: 3 });
            }
        }
        emit(Case::Stateless { cid, depth: t.pick(2, 3) });
    }
}

#[derive(Clone, Debug)]
enum Op {
    Push(u8),
    ExtendInherent(u8),
    ExtendTrait(u8),
    /// extend / Extend::extend / collect-and-append through an iterator reporting size_hint (lower, upper) from HINTS
    ExtendHinted(u8),
    Append(u8),
    Prepend(u8),
    Insert(usize, u8),
    /// (range form, a, b): remove symbols a..b expressed in that RangeBounds form
    Remove(u8, usize, usize),
    Truncate(usize),
    Clear,
    /// overwrite a differently sized value with `clone_from(&current)`, then continue from the copy
    CloneFrom(u8),
}

/// (lower bound reported, upper bound reported or None, actual number of items)
const HINTS: [(usize, Option<usize>, usize); 9] = [
    (0, None, 3),
    (1, None, 3),
    (2, Some(5), 3),
    (0, Some(3), 3),
    (1, Some(1), 1),
    (0, None, 0),
    // truthful but enormous upper bounds (e.g. take_while over an unbounded range)
    (0, Some(usize::MAX), 2),
    (1, Some(usize::MAX - 1), 3),
    (0, Some(usize::MAX / 2 + 1), 1),
];

/// An iterator that yields `items` but reports the given size hint (legal: lower <= actual <= upper).
struct Hinted<A> {
    items: std::vec::IntoIter<A>,
    lower: usize,
    upper: Option<usize>,
}

impl<A> Iterator for Hinted<A> {
    type Item = A;
    fn next(&mut self) -> Option<A> {
        let x = self.items.next();
        if x.is_some() {
            self.lower = self.lower.saturating_sub(1);
            self.upper = self.upper.map(|u| u.saturating_sub(1));
        }
        x
    }
    fn size_hint(&self) -> (usize, Option<usize>) {
        (self.lower.min(self.items.len()), self.upper.map(|u| u.max(self.items.len())))
    }
}

const FORMS: [&str; 11] = [
    "a..b",
    "a..=b-1",
    "..b",
    "..=b-1",
    "a..",
    "..",
    "(Excluded(a-1), Excluded(b))",
    "(Excluded(a-1), Included(b-1))",
    "(Excluded(a-1), Unbounded)",
    "(Included(a), Excluded(b))",
    "(Unbounded, Included(b-1))",
];

fn form_ok(f: u8, a: usize, b: usize, len: usize) -> bool {
    match f {
        0 | 9 => true,
        1 => b >= 1,
        2 => a == 0,
        3 | 10 => a == 0 && b >= 1,
        4 => b == len,
        5 => a == 0 && b == len,
        6 => a >= 1,
        7 => a >= 1 && b >= 1,
        8 => a >= 1 && b == len,
        _ => false,
    }
}

fn do_remove<A: Codec>(s: &mut Seq<A>, f: u8, a: usize, b: usize) {
    match f {
        0 => s.remove(a..b),
        1 => s.remove(a..=b - 1),
        2 => s.remove(..b),
        3 => s.remove(..=b - 1),
        4 => s.remove(a..),
        5 => s.remove(..),
        6 => s.remove((Bound::Excluded(a - 1), Bound::Excluded(b))),
        7 => s.remove((Bound::Excluded(a - 1), Bound::Included(b - 1))),
        8 => s.remove((Bound::Excluded(a - 1), Bound::Unbounded)),
        9 => s.remove((Bound::Included(a), Bound::Excluded(b))),
        10 => s.remove((Bound::Unbounded, Bound::Included(b - 1))),
        _ => unreachable!(),
    }
}

struct St<A: Codec> {
    real: Seq<A>,
    model: Vec<A>,
}

struct Edits<A: Codec> {
    /// pushed / extended symbols
    xs: Vec<A>,
    donor: Seq<A>,
    donor_model: Vec<A>,
    donor_text: String,
    /// argument windows (start, len) into the donor
    windows: Vec<(usize, usize)>,
    horizon: usize,
    /// restrict positional arguments to ends and word boundaries
    boundary: bool,
}

fn positions<A: Codec>(len: usize, boundary: bool) -> Vec<usize> {
    if !boundary || len <= 8 {
        return (0..=len).collect();
    }
    let bits = A::BITS as usize;
    let mut v = vec![0, 1, len - 1, len];
    let mut w = 1;
    while 64 * w / bits <= len + 1 {
        // long sequences: only the first two, the power-of-two and the last two word boundaries
        if w > 2 && !w.is_power_of_two() && 64 * (w + 2) / bits <= len {
            w += 1;
            continue;
        }
        if len > 2000 && w > 2 && w != 64 && 64 * (w + 2) / bits <= len {
            w += 1;
            continue;
        }
        let b = 64 * w / bits;
        for p in [b.saturating_sub(1), b, b + 1] {
            if p <= len {
                v.push(p);
            }
        }
        w += 1;
    }
    v.sort();
    v.dedup();
    v
}

impl<A: Sx> Edits<A> {
    fn new(tier: Tier, horizon: usize, boundary: bool, seed: u64) -> Self {
        let al = alphabet::<A>();
        let m = al.len();
        // symbols with bit patterns asymmetric under reversal and shift where the alphabet has them
        let mut sorted = al.clone();
        sorted.sort_by_key(|a| {
            let b = a.to_bits();
            let w = A::BITS as u32;
            let rev = b.reverse_bits() >> (8 - w);
            (rev == b) as u8 // asymmetric first
        });
        // pushed symbols xs, and a donor alphabet ys of at most 4 symbols (so that the reachable content
        // space under the length horizon is about 4^L for every codec)
        let xs: Vec<A> = sorted.iter().copied().take(tier.pick(2, 3).min(m)).collect();
        let ys: Vec<A> = sorted.iter().copied().take(4.min(m)).collect();
        let spw = 64 / A::BITS as usize;
        let dn = 2 * spw + 6;
        let donor_model: Vec<A> = bg(dn, ys.len(), 60, seed).iter().map(|&i| ys[i as usize]).collect();
        let donor = build(&donor_model);
        let donor_text = donor.to_string();
        // window starts: bit offset 0, one mid-word, one whose symbols straddle / touch the word boundary
        let starts = [0usize, spw / 2 + 1, spw - 1];
        let lens: Vec<usize> = if boundary { vec![1, spw + 1] } else { vec![0, 1, 2] };
        let mut windows = Vec::new();
        for &s in &starts {
            for &l in &lens {
                windows.push((s, l));
            }
        }
        Edits { xs, donor, donor_model, donor_text, windows, horizon, boundary }
    }
    fn win(&self, w: u8) -> (&SeqSlice<A>, &[A]) {
        let (s, l) = self.windows[w as usize];
        (&self.donor[s..s + l], &self.donor_model[s..s + l])
    }
}

impl<A: Sx> System for Edits<A> {
    type State = St<A>;
    type Key = (Vec<u8>, Vec<usize>, Option<u64>);
    type Op = Op;

    fn key(&self, s: &St<A>) -> Self::Key {
        (codes(&s.model), s.real.into_raw().to_vec(), head_of(&s.real))
    }

    fn ops(&self, s: &St<A>) -> Vec<Op> {
        let len = s.model.len();
        let mut v = Vec::new();
        for x in 0..self.xs.len() as u8 {
            v.push(Op::Push(x));
        }
        for k in 0..=2u8 {
            v.push(Op::ExtendInherent(k));
            v.push(Op::ExtendTrait(k));
        }
        if self.boundary {
            // one call carrying more than one / two machine words of symbols (anything batched per word shows here)
            let spw = 64 / A::BITS as usize;
            for k in [spw + 1, 2 * spw + 3] {
                v.push(Op::ExtendInherent(k as u8));
                v.push(Op::ExtendTrait(k as u8));
            }
        }
        // the same through iterators whose size_hint is not exact: (lower bound, actual) pairs
        for hint in 0..HINTS.len() as u8 {
            v.push(Op::ExtendHinted(hint));
        }
        let pos = positions::<A>(len, self.boundary);
        for w in 0..self.windows.len() as u8 {
            v.push(Op::Append(w));
            v.push(Op::Prepend(w));
            for &i in &pos {
                v.push(Op::Insert(i, w));
            }
        }
        for &a in &pos {
            for &b in &pos {
                if a <= b {
                    for f in 0..FORMS.len() as u8 {
                        if form_ok(f, a, b, len) {
                            v.push(Op::Remove(f, a, b));
                        }
                    }
                }
            }
        }
        for &n in &pos {
            v.push(Op::Truncate(n));
        }
        v.push(Op::Clear);
        for w in 0..3u8 {
            v.push(Op::CloneFrom(w));
        }
        v
    }

    fn step(&self, s: &St<A>, op: &Op, out: &mut Out) -> Result<Option<St<A>>, (String, String)> {
        let cn = A::CID.name();
        // a slice copied out before the edit, and the state's own value, are the witnesses
        let cut = s.model.len().min(1);
        let witness: Seq<A> = s.real[cut..].to_owned();
        let mut next = s.real.clone();
        let mut model = s.model.clone();
        let opname: &'static str;
        let r = match op {
            Op::Push(x) => {
                opname = "push";
                model.push(self.xs[*x as usize]);
                catch(|| next.push(self.xs[*x as usize]))
            }
            Op::ExtendInherent(k) => {
                opname = "extend";
                let items: Vec<A> = (0..*k as usize).map(|i| self.xs[i % self.xs.len()]).collect();
                model.extend(items.iter().copied());
                catch(|| next.extend(items.iter().copied()))
            }
            Op::ExtendTrait(k) => {
                opname = "Extend::extend";
                let items: Vec<A> = (0..*k as usize).map(|i| self.xs[(i + 1) % self.xs.len()]).collect();
                model.extend(items.iter().copied());
                catch(|| Extend::extend(&mut next, items.iter().copied()))
            }
            Op::ExtendHinted(h) => {
                opname = "extend(inexact size_hint)";
                let (lower, upper, actual) = HINTS[*h as usize];
                let items: Vec<A> = (0..actual).map(|i| self.xs[(i + *h as usize) % self.xs.len()]).collect();
                model.extend(items.iter().copied());
                let it = Hinted { items: items.into_iter(), lower, upper };
                // alternate between the inherent method, the trait method and FromIterator + append
                match *h % 3 {
                    0 => catch(|| next.extend(it)),
                    1 => catch(|| Extend::extend(&mut next, it)),
                    _ => catch(|| {
                        let tail: Seq<A> = it.collect();
                        next.append(&tail)
                    }),
                }
            }
            Op::Append(w) => {
                opname = "append";
                let (sl, m) = self.win(*w);
                model.extend_from_slice(m);
                catch(|| next.append(sl))
            }
            Op::Prepend(w) => {
                opname = "prepend";
                let (sl, m) = self.win(*w);
                let mut nm = m.to_vec();
                nm.extend_from_slice(&model);
                model = nm;
                catch(|| next.prepend(sl))
            }
            Op::Insert(i, w) => {
                opname = "insert";
                let (sl, m) = self.win(*w);
                let tail = model.split_off(*i);
                model.extend_from_slice(m);
                model.extend(tail);
                catch(|| next.insert(*i, sl))
            }
            Op::Remove(f, a, b) => {
                opname = "remove";
                model.drain(*a..*b);
                catch(|| do_remove(&mut next, *f, *a, *b))
            }
            Op::Truncate(n) => {
                opname = "truncate";
                model.truncate(*n);
                catch(|| next.truncate(*n))
            }
            Op::Clear => {
                opname = "clear";
                model.clear();
                catch(|| next.clear())
            }
            Op::CloneFrom(w) => {
                opname = "clone_from";
                // the target previously held other content: empty, a donor window, or a longer copy of itself
                catch(|| {
                    let mut target: Seq<A> = match *w {
                        0 => Seq::new(),
                        1 => self.win(1).0.to_owned(),
                        _ => {
                            let mut t = s.real.clone();
                            t.append(self.win(2).0);
                            t.append(self.win(2).0);
                            t
                        }
                    };
                    target.clone_from(&s.real);
                    next = target;
                })
            }
        };
        out.count(opname, 1);
        if let Err(m) = r {
            return Err((format!("{cn}/{opname}/panics"), format!("{op:?} on {} panicked: {m}", show_cut(&s.model))));
        }
        out.checks += 1;
        if !matches(&next, &model) {
            let what = if next.len() != model.len() { "wrong-length" } else { "wrong-symbols" };
            return Err((
                format!("{cn}/{opname}/{what}"),
                format!("{op:?} on {} gives {}, the list model gives {}", show_cut(&s.model), render(&next), show_cut(&model)),
            ));
        }
        // iter, ==, hash against a fresh parse of the model text
        out.checks += 1;
        let fresh = build(&model);
        let it: Vec<A> = next.iter().take(model.len() + 3).collect();
        if it != model || next != fresh || !(fresh == next) || rec::stream(&next).bytes != rec::stream(&fresh).bytes {
            return Err((
                format!("{cn}/{opname}/result-not-equivalent-to-fresh-sequence"),
                format!("after {op:?} on {}: iter/==/hash of the result differ from a freshly built {}", show_cut(&s.model), show_cut(&model)),
            ));
        }
        // nothing else moved: the source value, the slice copied out earlier, the donor
        out.checks += 1;
        if !matches(&s.real, &s.model) {
            return Err((format!("{cn}/{opname}/disturbs-the-value-it-was-cloned-from"), format!("{op:?} on a clone changed the original {}", show_cut(&s.model))));
        }
        if !matches(&witness, &s.model[cut..]) {
            return Err((format!("{cn}/{opname}/disturbs-earlier-slice-copy"), format!("{op:?} changed a copy taken earlier of {}", show_cut(&s.model))));
        }
        if self.donor.to_string() != self.donor_text {
            return Err((format!("{cn}/{opname}/disturbs-argument"), format!("{op:?} changed its argument's parent sequence")));
        }
        out.dim("len", model.len() as i64);
        if model.len() > self.horizon {
            return Ok(None);
        }
        let st = St { real: next, model };
        if let Some(h) = head_of(&st.real) {
            out.dim("head_bit", h as i64);
        }
        Ok(Some(st))
    }
}

fn run(c: &Case, out: &mut Out) {
    let t0 = std::time::Instant::now();
    run_inner(c, out);
    if std::env::var("BSV_TIMES").is_ok() {
        eprintln!("{:8.2}s {:?}", t0.elapsed().as_secs_f64(), c);
    }
}

fn run_inner(c: &Case, out: &mut Out) {
    match c {
        Case::Fixpoint { cid, .. } | Case::Boundary { cid, .. } | Case::Stateless { cid, .. } => dispatch!(*cid, run_g(c, out)),
    }
}

fn seed_state<A: Sx>(content: &[A], from_offset: usize) -> St<A> {
    let real = if from_offset == 0 { build(content) } else { owned_headed(content, from_offset) };
    St { real, model: content.to_vec() }
}

fn run_g<A: Sx>(c: &Case, out: &mut Out) {
    let m = alphabet::<A>().len();
    let nof = noff(A::BITS as usize);
    match c {
        Case::Fixpoint { l, seed, .. } => {
            let sys = Edits::<A>::new(out.tier, *l, false, out.seed);
            let seeds = match *seed {
                0 => vec![seed_state::<A>(&[], 0)],
                1 => vec![seed_state::<A>(&syms::<A>(&bg(2, m, 61, out.seed)), 1)],
                _ => vec![seed_state::<A>(&syms::<A>(&bg(1, m, 62, out.seed)), nof - 1), seed_state::<A>(&[], nof / 2 + 1)],
            };
            let st = bfs(&sys, seeds, usize::MAX, 3_000_000, true, out);
            out.flag("fixpoint: frontier emptied under the length horizon", st.frontier_emptied);
            out.flag("no state cap hit", !st.cap_hit);
            out.count("fixpoint explorations", 1);
            out.count("transitions beyond the length horizon (executed and checked, not expanded)", st.beyond_horizon);
            out.observe(&(A::CID, 0u8, st.states, st.transitions));
        }
        Case::Boundary { n, headed, depth, .. } => {
            let spw = 64 / A::BITS as usize;
            let sys = Edits::<A>::new(out.tier, *n + 2 * (spw + 2) * *depth, true, out.seed);
            let content = syms::<A>(&bg(*n, m, 63, out.seed));
            let seeds = vec![seed_state::<A>(&content, if *headed { nof / 2 + 1 } else { 0 })];
            let st = bfs(&sys, seeds, *depth, 3_000_000, true, out);
            out.flag("no state cap hit", !st.cap_hit);
            out.count("boundary explorations", 1);
            out.observe(&(A::CID, 1u8, *n, st.states, st.transitions));
        }
        Case::Stateless { depth, .. } => {
            let sys = Edits::<A>::new(Tier::Quick, usize::MAX, false, out.seed);
            let st = bfs(&sys, vec![seed_state::<A>(&[], 0)], *depth, 6_000_000, false, out);
            out.flag("no state cap hit", !st.cap_hit);
            out.count("stateless explorations", 1);
            out.observe(&(A::CID, 2u8, st.states, st.transitions));
        }
    }
}

fn main() {
    main_loop("C06", gen, run, |_| {
        json!({
            "alphabet": ["push(x)", "extend (inherent) 0/1/2 symbols", "Extend::extend 0/1/2 symbols", "both extends with spw+1 and 2*spw+3 symbols in one call (boundary seeds)", "append(w)", "prepend(w)", "insert(i, w) for every i in 0..=len", "remove(r) for every in-bounds (a,b) in 11 RangeBounds forms", "truncate(n) for every n <= len", "clear"],
            "range_forms": FORMS,
            "argument_windows": "donor windows at bit offset 0, mid-word and touching the word boundary x lengths {0,1,2} (fixpoint/stateless) or {1, spw+1} (boundary)",
            "state_key": "(model symbols, into_raw() words, internal head bit index read from bitvec's serde form)",
            "invariant": "after every transition: len, every get(i), to_string, iter, ==, recorded hash vs a freshly built sequence; the value the result was cloned from, a slice copy taken before the edit and the argument's parent are unchanged",
        })
    });
}
