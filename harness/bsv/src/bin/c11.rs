//! C11 — symbol, reverse, window and chunk iterators enumerate exactly the
//! right items, chaining concatenates, and every iterator terminates.

use bsv::fixture::*;
use bsv::*;
use serde::{Deserialize, Serialize};
use serde_json::json;

#[derive(Serialize, Deserialize, Hash, Clone, Debug)]
enum Case {
    /// content of length `n` as a slice at symbol offset `s` (ph > 0: inside a parent copied from offset ph);
    /// the chained second operand has length `n2` at offset `s2`
    Shape { cid: Cid, n: usize, s: usize, ph: usize, n2: usize, s2: usize },
    /// iterator protocol: every {next, nth(k)} sequence up to `depth`, then every terminal consumer,
    /// on each iterator over a content of length `n` at offset `s` (windows/chunks of width `w`)
    Protocol { cid: Cid, n: usize, s: usize, w: usize, depth: usize },
}

fn gen(t: Tier, _seed: u64, emit: &mut dyn FnMut(Case)) {
    for cid in Cid::ALL {
        let bits = cid.bits();
        let nof = noff(bits);
        let mut ns: Vec<usize> = (0..=12).collect();
        ns.extend(wb_lengths(bits, t.pick(2, 3)));
        ns.sort();
        ns.dedup();
        for &n in &ns {
            for s in 0..nof {
                let n2 = [0usize, 1, 5, 64 / bits + 1][(n + s) % 4];
                emit(Case::Shape { cid, n, s, ph: 0, n2, s2: (s * 5 + 3) % nof });
            }
            for (s, ph) in [(0usize, 1usize), (1, nof - 1), (nof - 1, nof / 2 + 1)] {
                emit(Case::Shape { cid, n, s, ph, n2: 3, s2: 1 });
            }
        }
        for n in long_lengths(bits) {
            for s in [0usize, 1, nof - 1] {
                emit(Case::Shape { cid, n, s, ph: 0, n2: 3, s2: 2 });
            }
            emit(Case::Shape { cid, n, s: 1, ph: nof / 2 + 1, n2: 1, s2: 0 });
        }
        for n in huge_lengths(bits).into_iter().filter(|n| *n <= 17000).step_by(2) {
            emit(Case::Shape { cid, n, s: n % 2, ph: 0, n2: 2, s2: 1 });
        }
        // item counts around 2^16 (a position or step counter narrowed to 16 bits wraps here; a type's width is
        // not a literal the driver's constant scan can see); 3 * 2^16 for chunks(3); the iterators are generic, so the
        // narrowest and a wide codec stand for all
        for n in [65_539usize, 196_613].into_iter().filter(|_| bits == 2 || bits == 6) {
            emit(Case::Shape { cid, n, s: n % 2, ph: 0, n2: 2, s2: 1 });
        }
        let spw = 64 / bits;
        for n in [0usize, 1, 2, 3, 5, 7, spw + 1] {
            for w in [1usize, 2, 3, n, n + 1] {
                if w >= 1 {
                    for s in [0usize, nof - 1] {
                        emit(Case::Protocol { cid, n, s, w, depth: t.pick(3, 4) });
                    }
                }
            }
        }
    }
}

fn run(c: &Case, out: &mut Out) {
    match c {
        Case::Shape { cid, .. } => dispatch!(*cid, run_g(c, out)),
        Case::Protocol { cid, .. } => dispatch!(*cid, proto_g(c, out)),
    }
}

fn proto_g<A: Sx>(c: &Case, out: &mut Out) {
    let Case::Protocol { n, s, w, depth, .. } = c else { return };
    let (n, s, w, depth) = (*n, *s, *w, *depth);
    let cn = A::CID.name();
    let m = alphabet::<A>().len();
    let content: Vec<A> = syms::<A>(&bg(n, m, 25 + s as u64, out.seed));
    let second: Vec<A> = syms::<A>(&bg(2, m, 26, out.seed));
    let pl = place(&content, s, 0);
    let pl2 = place(&second, 1, 1);
    let v = pl.view();
    let owned = build(&content);
    out.units += 1;
    let id = |a: A| a;
    let rd = |x: &SeqSlice<A>| read(x);
    let what = format!("{} (len {n}, offset {s})", show_cut(&content));
    let mut t = 0;
    if w == 1 {
        t += bsv::iterproto::explore(&format!("{cn}/iter"), &format!("iter() over {what}"), &|| v.iter(), &id, &content, depth, out);
        t += bsv::iterproto::explore(&format!("{cn}/into_iter-seq"), &format!("(&seq).into_iter() over {what}"), &|| (&owned).into_iter(), &id, &content, depth, out);
        let rev: Vec<A> = content.iter().rev().copied().collect();
        t += bsv::iterproto::explore(&format!("{cn}/rev_iter"), &format!("rev_iter() over {what}"), &|| v.rev_iter(), &id, &rev, depth, out);
        let mut ch = content.clone();
        ch.extend_from_slice(&second);
        t += bsv::iterproto::explore(&format!("{cn}/chain"), &format!("chain over {what}"), &|| v.chain(pl2.view()), &id, &ch, depth, out);
    }
    let win: Vec<Vec<A>> = if w <= n { (0..=n - w).map(|i| content[i..i + w].to_vec()).collect() } else { vec![] };
    t += bsv::iterproto::explore(&format!("{cn}/windows"), &format!("windows({w}) over {what}"), &|| v.windows(w), &rd, &win, depth, out);
    let chk: Vec<Vec<A>> = (0..n / w).map(|i| content[i * w..(i + 1) * w].to_vec()).collect();
    t += bsv::iterproto::explore(&format!("{cn}/chunks"), &format!("chunks({w}) over {what}"), &|| v.chunks(w), &rd, &chk, depth, out);
    out.count("protocol traces", t);
    out.observe(&(A::CID, n, w, t));
}

fn run_g<A: Sx>(c: &Case, out: &mut Out) {
    let Case::Shape { n, s, ph, n2, s2, .. } = c else { return };
    let (n, s, ph, n2, s2) = (*n, *s, *ph, *n2, *s2);
    let cn = A::CID.name();
    let m = alphabet::<A>().len();
    let content: Vec<A> = syms::<A>(&bg(n, m, 20 + s as u64, out.seed));
    let second: Vec<A> = syms::<A>(&bg(n2, m, 21 + s2 as u64, out.seed));
    let pl = if ph == 0 { place(&content, s, 0) } else { place_headed(&content, s, 0, ph) };
    let pl2 = place(&second, s2, 1);
    let v = pl.view();
    let owned = build(&content);
    let cap = n + n2 + 5;
    out.units += 1;
    out.dim("len", n as i64);
    out.dim("view_bit_offset", ((s * A::BITS as usize) % 64) as i64);

    // ---- forward / reverse symbol iteration ----------------------------------------------
    out.stage = "iter";
    let it = out.catch(|| v.iter().take(cap).collect::<Vec<A>>());
    out.check(it.as_ref().ok() == Some(&content), || {
        (format!("{cn}/iter/wrong-items"), format!("iter() over {} (offset {s}) yields {:?}", show_cut(&content), it.as_ref().map(|x| show_cut(x))))
    });
    out.stage = "into_iter(&SeqSlice)";
    let it = out.catch(|| v.into_iter().take(cap).collect::<Vec<A>>());
    out.check(it.as_ref().ok() == Some(&content), || {
        (format!("{cn}/into_iter-slice/wrong-items"), format!("(&slice).into_iter() over {} yields {:?}", show_cut(&content), it.as_ref().map(|x| show_cut(x))))
    });
    out.stage = "into_iter(&Seq)";
    let it = out.catch(|| (&owned).into_iter().take(cap).collect::<Vec<A>>());
    out.check(it.as_ref().ok() == Some(&content), || {
        (format!("{cn}/into_iter-seq/wrong-items"), format!("(&seq).into_iter() over {} yields {:?}", show_cut(&content), it.as_ref().map(|x| show_cut(x))))
    });
    out.stage = "rev_iter";
    let want_rev: Vec<A> = content.iter().rev().copied().collect();
    let it = out.catch(|| v.rev_iter().take(cap).collect::<Vec<A>>());
    out.check(it.as_ref().ok() == Some(&want_rev), || {
        (format!("{cn}/rev_iter/wrong-items"), format!("rev_iter() over {} yields {:?}", show_cut(&content), it.as_ref().map(|x| show_cut(x))))
    });
    // exhausted iterators stay exhausted (termination: no item after the end)
    out.stage = "iter after exhaustion";
    let r = out.catch(|| {
        let mut i = v.iter();
        let mut k = 0;
        while i.next().is_some() && k < cap {
            k += 1;
        }
        let mut r = v.rev_iter();
        let mut k2 = 0;
        while r.next().is_some() && k2 < cap {
            k2 += 1;
        }
        (k, i.next().is_none() && i.next().is_none(), k2, r.next().is_none() && r.next().is_none())
    });
    out.check(r == Ok((n, true, n, true)), || {
        (format!("{cn}/iter/does-not-terminate-cleanly"), format!("draining iter()/rev_iter() over length {n}: {:?}", r))
    });

    // ---- chain ------------------------------------------------------------------------
    out.stage = "chain";
    let mut want_chain = content.clone();
    want_chain.extend_from_slice(&second);
    let it = out.catch(|| v.chain(pl2.view()).take(cap).collect::<Vec<A>>());
    out.check(it.as_ref().ok() == Some(&want_chain), || {
        (
            format!("{cn}/chain/wrong-items"),
            format!("{}.chain({}) yields {:?}", show_cut(&content), show_cut(&second), it.as_ref().map(|x| show_cut(x))),
        )
    });

    // ---- windows / chunks of a width near usize::MAX: never an item, never a panic, however often polled ---
    out.stage = "windows/chunks with an enormous width";
    for w in [usize::MAX, usize::MAX - 1, usize::MAX / 2 + 1, (usize::MAX / 2) + 2, usize::MAX - n] {
        let r = out.catch(|| {
            let mut i = v.windows(w);
            let a = [i.next().is_none(), i.next().is_none(), i.next().is_none(), i.nth(0).is_none(), i.next().is_none()];
            let mut j = v.chunks(w);
            let b = [j.next().is_none(), j.next().is_none(), j.next().is_none(), j.nth(1).is_none(), j.next().is_none()];
            (a, b, v.windows(w).count(), v.chunks(w).count())
        });
        out.check(r == Ok(([true; 5], [true; 5], 0, 0)), || {
            (format!("{cn}/windows/enormous-width-misbehaves"), format!("windows({w:#x}) / chunks({w:#x}) over length {n}, polled five times: {:?}", r))
        });
    }

    // ---- windows / chunks -------------------------------------------------------------
    let spw = 64 / A::BITS as usize;
    let widths: Vec<usize> = if n <= 3 * spw + 2 {
        (1..=n + 2).collect()
    } else {
        // long sequences: widths around 1, the word size, half the length and the length
        let mut w = vec![1, 2, 3, spw - 1, spw, spw + 1, 2 * spw + 1, n - 1, n, n + 1, n + 2];
        if n <= 2000 {
            w.extend([n / 2, n / 2 + 1]);
        } else {
            // very long: also chunk widths around a 64-word block
            w.extend([64 * spw - 1, 64 * spw, 64 * spw + 1]);
        }
        w.retain(|x| *x >= 1);
        w.sort();
        w.dedup();
        w
    };
    for w in widths {
        out.stage = "windows";
        let want_n = if w <= n { n - w + 1 } else { 0 };
        let got = out.catch(|| v.windows(w).take(cap).map(|x| read(x)).collect::<Vec<Vec<A>>>());
        let ok = match &got {
            Ok(items) => items.len() == want_n && items.iter().enumerate().all(|(i, x)| x[..] == content[i..i + w]),
            Err(_) => false,
        };
        out.check(ok, || {
            (
                format!("{cn}/windows/wrong-items"),
                format!(
                    "windows({w}) over {} (len {n}, offset {s}): {:?} items (want {want_n}) {:?}",
                    show_cut(&content),
                    got.as_ref().map(|g| g.len()),
                    got.as_ref().map(|g| g.iter().take(4).map(|x| show_cut(x)).collect::<Vec<_>>())
                ),
            )
        });
        out.stage = "chunks";
        let want_n = n / w;
        let got = out.catch(|| v.chunks(w).take(cap).map(|x| read(x)).collect::<Vec<Vec<A>>>());
        let ok = match &got {
            Ok(items) => items.len() == want_n && items.iter().enumerate().all(|(i, x)| x[..] == content[i * w..(i + 1) * w]),
            Err(_) => false,
        };
        out.check(ok, || {
            (
                format!("{cn}/chunks/wrong-items"),
                format!(
                    "chunks({w}) over {} (len {n}, offset {s}): {:?} items (want {want_n}) {:?}",
                    show_cut(&content),
                    got.as_ref().map(|g| g.len()),
                    got.as_ref().map(|g| g.iter().take(4).map(|x| show_cut(x)).collect::<Vec<_>>())
                ),
            )
        });
        // the slices handed out are real slices: length, display, and collectable into owned sequences
        if w <= 4 || w + 2 >= n || w % 7 == 0 {
            out.stage = "FromIterator<&SeqSlice> for Vec<Seq>";
            let got = out.catch(|| v.chunks(w).take(cap).collect::<Vec<Seq<A>>>());
            let ok = match &got {
                Ok(items) => items.len() == n / w && items.iter().enumerate().all(|(i, x)| matches(x, &content[i * w..(i + 1) * w])),
                Err(_) => false,
            };
            out.check(ok, || {
                (format!("{cn}/chunks-collect/wrong-items"), format!("chunks({w}).collect::<Vec<Seq>>() over {} is wrong", show_cut(&content)))
            });
            out.stage = "windows after exhaustion";
            let r = out.catch(|| {
                let mut i = v.windows(w);
                let mut k = 0;
                while i.next().is_some() && k < cap {
                    k += 1;
                }
                let mut j = v.chunks(w);
                let mut k2 = 0;
                while j.next().is_some() && k2 < cap {
                    k2 += 1;
                }
                (k < cap && i.next().is_none(), k2 < cap && j.next().is_none())
            });
            out.check(r == Ok((true, true)), || {
                (format!("{cn}/windows/does-not-terminate-cleanly"), format!("windows({w})/chunks({w}) over length {n} after exhaustion: {:?}", r))
            });
        }
        out.dim("width", w as i64);
    }
    out.observe(&(A::CID, n, content.first().map(|a| a.to_bits())));
}

fn main() {
    main_loop("C11", gen, run, |_| {
        json!({
            "iterators": ["iter", "(&SeqSlice).into_iter", "(&Seq).into_iter", "rev_iter", "chain", "windows(w)", "chunks(w)", "FromIterator<&SeqSlice> for Vec<Seq>"],
            "widths": "every w in 1..=n+2", "termination": "every drain capped at n+n2+5 items; exhausted iterators must keep returning None",
            "protocol": "every sequence of {next, nth(0), nth(1), nth(2), nth(n+1)} up to depth 3 (quick) / 4 (thorough), each followed by every terminal consumer {drain, count, last, size_hint, fold, skip(1), step_by(2), skip(2).nth(1)}, on fresh iterators, against the same calls on the model list",
        })
    });
}
