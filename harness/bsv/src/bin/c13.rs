//! C13 — standard DNA -> amino translation is NCBI table 1 for every codon at
//! every bit offset; translation by windows(3)/chunks(3) is position-wise.

use bio_seq::translation::{TranslationTable, STANDARD};
use bsv::fixture::*;
use bsv::spec;
use bsv::*;
use serde::{Deserialize, Serialize};
use serde_json::json;

#[derive(Serialize, Deserialize, Hash, Clone, Debug)]
enum Case {
    /// one codon (base indices A=0..T=3) presented as a slice at symbol offset `s`
    /// of a flanked parent; `ph` > 0: the parent itself was copied from an offset slice
    Codon { c: [u8; 3], s: usize, ph: usize },
    /// a 6-bit pattern decoded as an amino acid
    Pattern { p: u8 },
    /// a whole DNA sequence translated by windows(3) and chunks(3) at offset `s`
    Sequence { idx: Vec<u8>, s: usize },
}

/// de Bruijn sequence B(4,3) (as a linear string with wrap-around appended): contains every codon.
fn de_bruijn() -> Vec<u8> {
    let k = 4usize;
    let n = 3usize;
    let mut a = vec![0usize; k * n];
    let mut seq: Vec<u8> = Vec::new();
    fn db(t: usize, p: usize, k: usize, n: usize, a: &mut Vec<usize>, seq: &mut Vec<u8>) {
        if t > n {
            if n % p == 0 {
                for i in 1..=p {
                    seq.push(a[i] as u8);
                }
            }
        } else {
            a[t] = a[t - p];
            db(t + 1, p, k, n, a, seq);
            for j in a[t - p] + 1..k {
                a[t] = j;
                db(t + 1, t, k, n, a, seq);
            }
        }
    }
    db(1, 1, k, n, &mut a, &mut seq);
    let head: Vec<u8> = seq[..n - 1].to_vec();
    seq.extend(head);
    seq
}

fn gen(t: Tier, seed: u64, emit: &mut dyn FnMut(Case)) {
    for p in 0..64u8 {
        emit(Case::Pattern { p });
    }
    for c0 in 0..4u8 {
        for c1 in 0..4u8 {
            for c2 in 0..4u8 {
                for s in 0..32 {
                    emit(Case::Codon { c: [c0, c1, c2], s, ph: 0 });
                }
                for s in [0usize, 30, 31] {
                    for ph in [1usize, 17, 31] {
                        emit(Case::Codon { c: [c0, c1, c2], s, ph });
                    }
                }
            }
        }
    }
    let maxn = t.pick(5, 6);
    for n in 0..=maxn {
        all_seqs(n, 4, &mut |v| {
            for s in [0usize, 31] {
                emit(Case::Sequence { idx: v.to_vec(), s });
            }
        });
    }
    let db = de_bruijn();
    for s in 0..32 {
        emit(Case::Sequence { idx: db.clone(), s });
    }
    for n in long_lengths(2).into_iter().chain(huge_lengths(2).into_iter().step_by(2)) {
        emit(Case::Sequence { idx: bsv::fixture::bg(n, 4, 7, seed), s: n % 3 });
    }
    // window / chunk counts around 2^16 (a position or step counter kept in a 16-bit integer wraps here; the
    // type's width is not a literal of the source, so the constant scan of the driver cannot see it)
    for n in [65_538usize, 65_539, 65_541, 196_610, 196_611, 196_614] {
        emit(Case::Sequence { idx: bsv::fixture::bg(n, 4, 7, seed), s: n % 3 });
    }
    if t.thorough() {
        for n in [31usize, 32, 33, 64, 65, 66, 97, 130] {
            pfamily(n, 4, seed, &mut |v| {
                for s in [0usize, 7, 31] {
                    emit(Case::Sequence { idx: v.to_vec(), s });
                }
            });
        }
    }
}

/// base indices (A=0, C=1, G=2, T=3) by *letter*, so the oracle speaks about what the symbols mean
fn letters(v: &[Dna]) -> Vec<u8> {
    v.iter()
        .map(|a| match a.to_char() {
            'A' => 0,
            'C' => 1,
            'G' => 2,
            _ => 3,
        })
        .collect()
}

fn amino_char(a: Amino) -> u8 {
    a.to_char() as u8
}

fn run(c: &Case, out: &mut Out) {
    match c {
        Case::Pattern { p } => {
            out.stage = "Amino::try_from_bits";
            let want = spec::ncbi_amino_of_bits(*p);
            let got = out.catch(|| Amino::try_from_bits(*p)).ok().flatten();
            out.check(got.map(amino_char) == Some(want), || {
                (
                    "Amino/try_from_bits/not-the-genetic-code".into(),
                    format!("try_from_bits({p:#08b}) = {:?}, NCBI table 1 says {:?}", got, want as char),
                )
            });
            out.stage = "Amino::unsafe_from_bits";
            let got = out.catch(|| Amino::unsafe_from_bits(*p));
            out.check(got.as_ref().ok().map(|a| amino_char(*a)) == Some(want), || {
                (
                    "Amino/unsafe_from_bits/not-the-genetic-code".into(),
                    format!("unsafe_from_bits({p:#08b}) = {:?}, NCBI table 1 says {:?}", got, want as char),
                )
            });
            out.observe(&(0u8, *p, got.ok().map(amino_char)));
        }
        Case::Codon { c, s, ph } => {
            let content: Vec<Dna> = syms::<Dna>(c);
            let codes = letters(&content);
            let want = spec::ncbi_amino(codes[0], codes[1], codes[2]);
            let pl = if *ph == 0 { place(&content, *s, 0) } else { place_headed(&content, *s, 0, *ph) };
            out.stage = "STANDARD.to_amino";
            let got = out.catch(|| STANDARD.to_amino(pl.view()));
            out.check(got.as_ref().ok().map(|a| amino_char(*a)) == Some(want), || {
                (
                    "STANDARD/to_amino/wrong-amino".into(),
                    format!(
                        "to_amino({}) at symbol offset {s} (parent head {ph}) = {:?}, NCBI table 1 says {:?}",
                        show(&content),
                        got,
                        want as char
                    ),
                )
            });
            out.dim("bit_offset", ((*s * 2) % 64) as i64);
            out.dim("codon", (c[0] + 4 * c[1] + 16 * c[2]) as i64);
            out.observe(&(1u8, c, got.ok().map(amino_char)));
        }
        Case::Sequence { idx, s } => {
            let content: Vec<Dna> = syms::<Dna>(idx);
            let cd = letters(&content);
            let pl = place(&content, *s, 1);
            let v = pl.view();
            let n = content.len();
            out.stage = "windows(3).map(to_amino)";
            let want_w: Vec<u8> = if n >= 3 { (0..=n - 3).map(|i| spec::ncbi_amino(cd[i], cd[i + 1], cd[i + 2])).collect() } else { vec![] };
            let got_w = out.catch(|| v.windows(3).take(n + 5).map(|c| amino_char(STANDARD.to_amino(c))).collect::<Vec<u8>>());
            out.check(got_w.as_ref().ok() == Some(&want_w), || {
                (
                    "STANDARD/windows3/wrong-translation".into(),
                    format!(
                        "windows(3) translation of {} at offset {s}: got {:?}, want {:?}",
                        show(&content),
                        got_w.as_ref().map(|x| String::from_utf8_lossy(x).to_string()),
                        String::from_utf8_lossy(&want_w)
                    ),
                )
            });
            out.stage = "chunks(3).map(to_amino)";
            let want_c: Vec<u8> = (0..n / 3).map(|i| spec::ncbi_amino(cd[3 * i], cd[3 * i + 1], cd[3 * i + 2])).collect();
            let got_c = out.catch(|| v.chunks(3).take(n + 5).map(|c| amino_char(STANDARD.to_amino(c))).collect::<Vec<u8>>());
            out.check(got_c.as_ref().ok() == Some(&want_c), || {
                (
                    "STANDARD/chunks3/wrong-translation".into(),
                    format!(
                        "chunks(3) translation of {} at offset {s}: got {:?}, want {:?}",
                        show(&content),
                        got_c.as_ref().map(|x| String::from_utf8_lossy(x).to_string()),
                        String::from_utf8_lossy(&want_c)
                    ),
                )
            });
            // collected into an amino sequence, as in the documentation example
            out.stage = "collect::<Seq<Amino>>";
            let got_s = out.catch(|| v.windows(3).take(n + 5).map(|c| STANDARD.to_amino(c)).collect::<Seq<Amino>>().to_string());
            out.check(got_s.as_ref().ok().map(|x| x.as_bytes().to_vec()) == Some(want_w.clone()), || {
                (
                    "STANDARD/windows3-collect/wrong-translation".into(),
                    format!("collected translation of {}: got {:?}", show(&content), got_s),
                )
            });
            // the same through every way of driving the iterators (nth / skip / step_by / count / last ...)
            if n <= 9 || (n == 66 && *s % 8 == 0) {
                out.stage = "iterator protocol over windows(3)/chunks(3)";
                let proj = |c: &SeqSlice<Dna>| amino_char(STANDARD.to_amino(c));
                let what = format!("translation of {} at offset {s}", show(&content));
                let depth = if n <= 9 { 2 } else { 1 };
                let t = bsv::iterproto::explore("STANDARD/windows3", &what, &|| v.windows(3), &proj, &want_w, depth, out)
                    + bsv::iterproto::explore("STANDARD/chunks3", &what, &|| v.chunks(3), &proj, &want_c, depth, out);
                out.count("protocol traces", t);
            }
            out.dim("seq_len", n as i64);
            out.observe(&(2u8, got_w.ok()));
        }
    }
}

fn main() {
    main_loop("C13", gen, run, |_| {
        json!({
            "exhaustive": true,
            "space": "64 codons x 32 symbol offsets (every bit offset of a 2-bit symbol in a word, incl. the 6 bits straddling two words) + 3 offsets x 3 non-zero parent heads; 64 amino bit patterns; every DNA sequence up to the length bound by windows(3)/chunks(3); a de Bruijn sequence of all codons at 32 offsets",
            "oracle": "NCBI translation table 1 as a 64-letter string in TCAG order",
        })
    });
}
