//! C12 — IUPAC sequences behave as per-position nucleotide sets under |, & and
//! contains; Iupac::from(Dna) is the singleton; complement is member-wise.

use bsv::fixture::*;
use bsv::spec;
use bsv::*;
use serde::{Deserialize, Serialize};
use serde_json::json;
use std::borrow::ToOwned;

#[derive(Serialize, Deserialize, Hash, Clone, Debug)]
enum Case {
    /// symbol level: Iupac::from(Dna), complement of every code
    Symbols,
    /// length n, operands at symbol offsets s1 / s2: every symbol pair at every position
    Ops { n: usize, s1: usize, s2: usize },
    /// long operands: symbol pairs only at positions next to word boundaries and ends
    OpsLong { n: usize, s1: usize, s2: usize },
    /// contains: all symbol pairs at length 1 (first = None) / all pairs of pairs at length 2 with first pattern symbol fixed
    ContainsSmall { n: usize, first: u8 },
    /// contains: one-position family at length n with operands at offsets s1 / s2
    ContainsShaped { n: usize, s1: usize, s2: usize },
    /// contains with unequal lengths
    ContainsMismatch { n: usize, m: usize },
    /// static-array receiver of contains
    ContainsArray { n: usize },
    /// both operands are windows of the same buffer (prefixes, overlapping windows, empty slices)
    ContainsAlias { n: usize },
    /// several machine words: the same (pattern, argument) symbol pair placed at one position of two, three,
    /// alternate or all words, or at every position (differences that cancel when words are combined carelessly)
    ContainsMulti { n: usize },
}

fn gen(t: Tier, _seed: u64, emit: &mut dyn FnMut(Case)) {
    emit(Case::Symbols);
    let lens: Vec<usize> = t.pick(vec![1, 2, 3, 15, 16, 17], vec![1, 2, 3, 15, 16, 17, 31, 32, 33, 48]);
    for &n in &lens {
        for s1 in 0..16usize {
            for s2 in 0..16usize {
                // quick: all 256 alignment pairs for n <= 3; for longer operands the pairs with one
                // operand at a special alignment, the diagonal and the anti-diagonal
                let special = |s: usize| s == 0 || s == 1 || s == 9 || s == 15;
                if t.thorough() || n <= 3 || special(s1) || special(s2) || s1 == s2 || s1 + s2 == 15 {
                    emit(Case::Ops { n, s1, s2 });
                }
            }
        }
    }
    for n in long_lengths(4) {
        for (s1, s2) in [(0usize, 0usize), (1, 15), (9, 2), (15, 8)] {
            emit(Case::OpsLong { n, s1, s2 });
        }
    }
    for n in huge_lengths(4) {
        for (s1, s2) in [(0usize, 0usize), (1, 0), (0, 1)] {
            emit(Case::OpsLong { n, s1, s2 });
        }
    }
    emit(Case::ContainsSmall { n: 1, first: 0 });
    for first in 0..16 {
        emit(Case::ContainsSmall { n: 2, first });
    }
    for &n in &[3usize, 15, 16, 17, 33] {
        for s1 in 0..16 {
            for s2 in 0..16 {
                emit(Case::ContainsShaped { n, s1, s2 });
            }
        }
    }
    for n in 0..=5 {
        for m in 0..=5 {
            if n != m {
                emit(Case::ContainsMismatch { n, m });
            }
        }
    }
    for n in [1usize, 2, 3, 15, 16, 17, 33] {
        emit(Case::ContainsArray { n });
    }
    for n in [1usize, 2, 3, 5, 16, 17] {
        emit(Case::ContainsAlias { n });
    }
    for n in [32usize, 33, 48, 64, 65, 80] {
        emit(Case::ContainsMulti { n });
    }
}

/// oracle: nucleotide set of an IUPAC symbol by its letter
fn set(a: Iupac) -> u8 {
    // by letter (oracle), memoised per display character
    static TABLE: std::sync::OnceLock<[u8; 256]> = std::sync::OnceLock::new();
    let t = TABLE.get_or_init(|| {
        let mut t = [255u8; 256];
        for b in 0..=255u8 {
            if let Some(s) = spec::iupac_set_of_letter(b) {
                t[b as usize] = s;
            }
        }
        t
    });
    let s = t[a.to_char() as u8 as usize];
    assert!(s != 255, "IUPAC letter");
    s
}

fn by_set(s: u8) -> Iupac {
    static TABLE: std::sync::OnceLock<Vec<Iupac>> = std::sync::OnceLock::new();
    TABLE.get_or_init(|| {
        (0..16u8)
            .map(|s| {
                let l = spec::iupac_letter_of_set(s);
                alphabet::<Iupac>().into_iter().find(|a| a.to_char() as u8 == l).unwrap()
            })
            .collect()
    })[s as usize]
}

fn ops_one(a: &[Iupac], b: &[Iupac], s1: usize, s2: usize, out: &mut Out) {
    out.units += 1;
    let pa = place(a, s1, 0);
    let pb = place(b, s2, 1);
    let want_or: Vec<Iupac> = a.iter().zip(b).map(|(x, y)| by_set(set(*x) | set(*y))).collect();
    let want_and: Vec<Iupac> = a.iter().zip(b).map(|(x, y)| by_set(set(*x) & set(*y))).collect();
    macro_rules! expect {
        ($stage:expr, $what:expr, $r:expr, $want:expr) => {{
            out.stage = $stage;
            let r = out.catch(|| $r);
            let ok = matches!(&r, Ok(x) if matches(x, $want));
            out.check(ok, || {
                (
                    format!("iupac/{}/not-the-set-operation", $what),
                    format!("{} {} {} (offsets {s1}/{s2}) = {:?}, want {}", show_cut(a), $what, show_cut(b), r.as_ref().map(|x| render(x)), show_cut($want)),
                )
            });
        }};
    }
    expect!("&a | &b", "slice|slice", pa.view() | pb.view(), &want_or);
    expect!("&a & &b", "slice&slice", pa.view() & pb.view(), &want_and);
    expect!("&b | &a", "slice|slice(swapped)", pb.view() | pa.view(), &want_or);
    expect!("&b & &a", "slice&slice(swapped)", pb.view() & pa.view(), &want_and);
    // owned operands: freshly built, and copied out of the offset slices (so their internal heads may differ)
    expect!("bit_or(fresh, fresh)", "bit_or(fresh,fresh)", build(a).bit_or(build(b)), &want_or);
    expect!("bit_and(fresh, fresh)", "bit_and(fresh,fresh)", build(a).bit_and(build(b)), &want_and);
    expect!("bit_or(copied, copied)", "bit_or(copied,copied)", owned_headed(a, s1).bit_or(owned_headed(b, s2)), &want_or);
    expect!("bit_and(copied, copied)", "bit_and(copied,copied)", owned_headed(a, s1).bit_and(owned_headed(b, s2)), &want_and);
    expect!("bit_or(copied, fresh)", "bit_or(copied,fresh)", owned_headed(a, s1).bit_or(build(b)), &want_or);
    expect!("bit_and(fresh, copied)", "bit_and(fresh,copied)", build(a).bit_and(owned_headed(b, s2)), &want_and);
    out.stage = "operands unchanged";
    out.check(matches(pa.view(), a) && matches(pb.view(), b), || ("iupac/ops/operand-changed".into(), format!("operand changed: {} / {}", show_cut(a), show_cut(b))));
}

fn contains_one(pat: &[Iupac], arg: &[Iupac], s1: usize, s2: usize, out: &mut Out) {
    out.units += 1;
    let pp = place(pat, s1, 0);
    let pq = place(arg, s2, 1);
    let want = pat.len() == arg.len() && pat.iter().zip(arg).all(|(p, q)| set(*q) & !set(*p) == 0);
    out.stage = "SeqSlice::contains";
    let r = out.catch(|| pp.view().contains(pq.view()));
    out.check(r == Ok(want), || {
        (
            format!("iupac/slice.contains/{}", if want { "false-negative" } else { "false-positive" }),
            format!("{}.contains({}) (offsets {s1}/{s2}) = {:?}, want {want}", show_cut(pat), show_cut(arg), r),
        )
    });
    out.stage = "Seq::contains";
    let owned = build(pat);
    let r = out.catch(|| owned.contains(pq.view()));
    out.check(r == Ok(want), || {
        (
            format!("iupac/seq.contains/{}", if want { "false-negative" } else { "false-positive" }),
            format!("Seq {}.contains({}) = {:?}, want {want}", show_cut(pat), show_cut(arg), r),
        )
    });
    let copied: Seq<Iupac> = owned_headed(pat, s1);
    let r = out.catch(|| copied.contains(pq.view()));
    out.check(r == Ok(want), || {
        (
            format!("iupac/copied-seq.contains/{}", if want { "false-negative" } else { "false-positive" }),
            format!("offset-copied Seq {}.contains({}) = {:?}, want {want}", show_cut(pat), show_cut(arg), r),
        )
    });
    out.observe(&(pat.len(), arg.len(), want));
}

fn contains_array<const N: usize>(out: &mut Out) {
    let m = 16;
    let base: Vec<Iupac> = syms::<Iupac>(&bg(N, m, 41, out.seed));
    let arr: SeqArray<Iupac, N, 3> = array_of(&base);
    let al = alphabet::<Iupac>();
    let mut arg = base.clone();
    for p in 0..N {
        for &y in &al {
            arg[p] = y;
            for s2 in [0usize, 5, 15] {
                out.units += 1;
                let pq = place(&arg, s2, 1);
                let want = base.iter().zip(&arg).all(|(a, b)| set(*b) & !set(*a) == 0);
                out.stage = "SeqArray::contains";
                let r = out.catch(|| arr.contains(pq.view()));
                out.check(r == Ok(want), || {
                    (
                        format!("iupac/array.contains/{}", if want { "false-negative" } else { "false-positive" }),
                        format!("SeqArray {}.contains({}) = {:?}, want {want}", show_cut(&base), show_cut(&arg), r),
                    )
                });
            }
        }
        arg[p] = base[p];
    }
    // length mismatch against a static array
    for d in [N.saturating_sub(1), N + 1] {
        if d != N {
            let short: Vec<Iupac> = (0..d).map(|i| base[i % N.max(1)]).collect();
            let pq = place(&short, 3, 0);
            let r = out.catch(|| arr.contains(pq.view()));
            out.check(r == Ok(false), || ("iupac/array.contains/length-mismatch-true".into(), format!("array of {N} contains slice of {d}: {:?}", r)));
        }
    }
}

fn run(c: &Case, out: &mut Out) {
    let al = alphabet::<Iupac>();
    match c {
        Case::Symbols => {
            out.stage = "Iupac::from(Dna)";
            for d in alphabet::<Dna>() {
                let r = out.catch(|| Iupac::from(d));
                let want = spec::iupac_set_of_letter(d.to_char() as u8).unwrap();
                out.check(matches!(&r, Ok(i) if set(*i) == want && i.to_char() == d.to_char()), || {
                    ("iupac/from-dna/not-the-singleton".into(), format!("Iupac::from({:?}) = {:?}", d, r))
                });
            }
            out.stage = "Iupac complement";
            for &a in &al {
                let s = set(a);
                let mut want = 0u8;
                for (x, y) in [(spec::SA, spec::ST), (spec::ST, spec::SA), (spec::SC, spec::SG), (spec::SG, spec::SC)] {
                    if s & x != 0 {
                        want |= y;
                    }
                }
                let r = out.catch(|| a.comp1().unwrap());
                out.check(matches!(&r, Ok(c) if set(*c) == want), || {
                    ("iupac/comp/not-member-wise".into(), format!("complement of {:?} = {:?}", a.to_char(), r.as_ref().map(|c| c.to_char())))
                });
            }
            out.observe(&0u8);
        }
        Case::Ops { n, s1, s2 } => {
            out.dim("len", *n as i64);
            out.dim("offsets", (*s1 * 16 + *s2) as i64);
            let ba = syms::<Iupac>(&bg(*n, 16, 50, out.seed));
            let bb = syms::<Iupac>(&bg(*n, 16, 51, out.seed));
            let (mut a, mut b) = (ba.clone(), bb.clone());
            for p in 0..*n {
                for &x in &al {
                    for &y in &al {
                        a[p] = x;
                        b[p] = y;
                        ops_one(&a, &b, *s1, *s2, out);
                    }
                }
                a[p] = ba[p];
                b[p] = bb[p];
            }
        }
        Case::OpsLong { n, s1, s2 } => {
            out.dim("len", *n as i64);
            let ba = syms::<Iupac>(&bg(*n, 16, 52, out.seed));
            let bb = syms::<Iupac>(&bg(*n, 16, 53, out.seed));
            ops_one(&ba, &bb, *s1, *s2, out);
            contains_one(&ba, &bb, *s1, *s2, out);
            let (mut a, mut b) = (ba.clone(), bb.clone());
            let mut pos: Vec<usize> = vec![0, *n - 1, *n - 2, *n / 2];
            let mut w = 16;
            while w < *n && pos.len() < 16 {
                pos.extend([w - 1, w]);
                w = if *n > 400 { w * 4 } else { w + 16 * 3 };
            }
            pos.retain(|p| *p < *n);
            pos.sort();
            pos.dedup();
            for p in pos {
                for (i, &x) in al.iter().enumerate().filter(|(i, _)| *n <= 400 || i % 5 == p % 5) {
                    let y = al[(i * 7 + p) % 16];
                    a[p] = x;
                    b[p] = y;
                    ops_one(&a, &b, *s1, *s2, out);
                    // pattern = union, argument = b: contained; argument with an extra member: not
                    let uni: Vec<Iupac> = a.iter().zip(&b).map(|(x, y)| by_set(set(*x) | set(*y))).collect();
                    contains_one(&uni, &b, *s1, *s2, out);
                    contains_one(&b, &uni, *s2, *s1, out);
                }
                a[p] = ba[p];
                b[p] = bb[p];
            }
        }
        Case::ContainsSmall { n, first } => {
            if *n == 1 {
                for &x in &al {
                    for &y in &al {
                        contains_one(&[x], &[y], (x.to_bits() as usize) % 16, (y.to_bits() as usize * 3) % 16, out);
                    }
                }
            } else {
                let x0 = al[*first as usize];
                for &x1 in &al {
                    for &y0 in &al {
                        for &y1 in &al {
                            contains_one(&[x0, x1], &[y0, y1], (x1.to_bits() as usize) % 16, (y0.to_bits() as usize) % 16, out);
                        }
                    }
                }
            }
        }
        Case::ContainsShaped { n, s1, s2 } => {
            // pattern positions are N except where varied, so that both outcomes occur
            let nsym = by_set(15);
            let base_p: Vec<Iupac> = (0..*n).map(|i| if i % 3 == 0 { nsym } else { al[(i * 5) % 16] }).collect();
            let base_q: Vec<Iupac> = base_p.iter().enumerate().map(|(i, p)| by_set(set(*p) & (0b0101 << (i % 2)) | (set(*p) & 1))).collect();
            let (mut p, mut q) = (base_p.clone(), base_q.clone());
            for i in 0..*n {
                for &x in &al {
                    for &y in &al {
                        p[i] = x;
                        q[i] = y;
                        contains_one(&p, &q, *s1, *s2, out);
                    }
                }
                p[i] = base_p[i];
                q[i] = base_q[i];
            }
            out.dim("len", *n as i64);
        }
        Case::ContainsMulti { n } => {
            let n = *n;
            let spw = 16usize;
            let words = n / spw;
            let nsym = by_set(15);
            let base_p: Vec<Iupac> = (0..n).map(|i| if i % 3 == 0 { nsym } else { al[(i * 5) % 16] }).collect();
            // an argument contained in the pattern everywhere: a subset of the pattern's set at every position
            let base_q: Vec<Iupac> = base_p.iter().enumerate().map(|(i, p)| by_set(set(*p) & (0b0101 << (i % 2)) | (set(*p) & 1))).collect();
            let mut sets: Vec<Vec<usize>> = vec![(0..n).collect()];
            for i in [0usize, 1, spw - 1] {
                sets.push((0..words).map(|w| w * spw + i).collect());
                sets.push(vec![i, i + spw]);
                if words >= 3 {
                    sets.push(vec![i, i + 2 * spw]);
                    sets.push(vec![i, i + spw, i + 2 * spw]);
                }
                if words >= 4 {
                    sets.push(vec![i + spw, i + 3 * spw]);
                    sets.push((0..words).step_by(2).map(|w| w * spw + i).collect());
                }
            }
            for set_ in &sets {
                for (x, y) in [(by_set(0b0011), by_set(0b0100)), (by_set(0b0001), by_set(0b1111)), (by_set(0b0110), by_set(0b0101)), (by_set(0b1111), by_set(0b0110)), (by_set(0b0101), by_set(0b0101))] {
                    let (mut p, mut q) = (base_p.clone(), base_q.clone());
                    for &j in set_ {
                        p[j] = x;
                        q[j] = y;
                    }
                    for (s1, s2) in [(0usize, 0usize), (3, 3), (0, 5), (15, 1)] {
                        contains_one(&p, &q, s1, s2, out);
                    }
                }
            }
            out.dim("len", n as i64);
        }
        Case::ContainsMismatch { n, m } => {
            let nsym = by_set(15);
            for s in 0..16 {
                let p: Vec<Iupac> = vec![nsym; *n];
                let q: Vec<Iupac> = (0..*m).map(|i| al[i % 4]).collect();
                contains_one(&p, &q, s, (s * 7) % 16, out);
                contains_one(&q, &p, s, (s * 7) % 16, out);
            }
        }
        Case::ContainsAlias { n } => {
            let nsym = by_set(15);
            // a parent of N's and a few concrete bases: many windows contain each other
            let pm: Vec<Iupac> = (0..*n + 20).map(|i| if i % 3 == 1 { al[i % 4] } else { nsym }).collect();
            let parent = build(&pm);
            let headed = owned_headed(&pm, 5);
            for a in 0..pm.len() {
                for la in 0..=*n {
                    for b in 0..pm.len() {
                        for lb in [la, la.saturating_sub(1), la + 1, 0] {
                            if a + la > pm.len() || b + lb > pm.len() {
                                continue;
                            }
                            out.units += 1;
                            let (x, y) = (&pm[a..a + la], &pm[b..b + lb]);
                            let want = x.len() == y.len() && x.iter().zip(y).all(|(p, q)| set(*q) & !set(*p) == 0);
                            out.stage = "contains between windows of one buffer";
                            let r = out.catch(|| (parent[a..a + la].contains(&parent[b..b + lb]), headed[a..a + la].contains(&headed[b..b + lb])));
                            out.check(r == Ok((want, want)), || {
                                (
                                    format!("iupac/slice.contains-alias/{}", if want { "false-negative" } else { "false-positive" }),
                                    format!("windows [{a}..{}] and [{b}..{}] of one buffer {}: contains = {:?}, want {want}", a + la, b + lb, show_cut(&pm), r),
                                )
                            });
                        }
                    }
                }
            }
            // an owned pattern against its own prefixes / itself
            out.stage = "Seq::contains(own slice)";
            for k in 0..=pm.len() {
                let r = out.catch(|| parent.contains(&parent[..k]));
                out.check(r == Ok(k == pm.len()), || ("iupac/seq.contains-alias/false-positive".into(), format!("p.contains(&p[..{k}]) with p of {} symbols = {:?}", pm.len(), r)));
            }
        }
        Case::ContainsArray { n } => {
            macro_rules! arr {
                ($($k:literal),*) => { match *n { $($k => contains_array::<$k>(out),)* _ => out.violation("MACHINERY/array-n", format!("{n}")) } };
            }
            arr!(1, 2, 3, 15, 16, 17, 33);
        }
    }
}

fn main() {
    main_loop("C12", gen, run, |_| {
        json!({
            "oracle": "IUPAC nomenclature (letter -> nucleotide set) typed in bsv/src/spec.rs; union / intersection / subset on sets",
            "forms": ["&SeqSlice | &SeqSlice", "&SeqSlice & &SeqSlice", "both operand orders", "Seq::bit_or / bit_and on fresh and offset-copied owned operands", "SeqSlice/Seq/offset-copied Seq/SeqArray::contains"],
        })
    });
}
