//! C01 — text <-> packed sequence round trip is lossless; bad input is rejected
//! exactly (first offending byte).  Bounded-exhaustive over byte strings x all
//! codecs x every parsing entry point.

use bio_seq::error::ParseBioError;
use bsv::fixture::*;
use bsv::spec::{self, Spec};
use bsv::*;
use serde::{Deserialize, Serialize};
use serde_json::json;
use std::str::FromStr;

#[derive(Serialize, Deserialize, Hash, Clone, Debug)]
enum Case {
    /// (a) every byte string of length <= 2 over all 256 byte values whose first byte is `a`
    /// (plus the empty string when a == 0)
    Pairs { cid: Cid, a: u8 },
    /// (b) every string of length `l` over accepted ∪ edge-rejected bytes starting with byte #`first` of that set
    Short { cid: Cid, l: usize, first: usize },
    /// (c) length `n`: the P(n) family of valid strings
    Valid { cid: Cid, n: usize },
    /// (c) length `n`: one rejected byte at every position, for every byte of the rejected set
    OneBad { cid: Cid, n: usize },
    /// (c) length `n`: two different rejected bytes at every position pair p < q
    TwoBad { cid: Cid, n: usize },
    /// a very long string (block sizes, thresholds): one valid pattern, a bad byte at chosen positions, two bad bytes
    Huge { cid: Cid, n: usize },
    /// two codecs used one after the other on the same thread (anything cached between calls per thread or
    /// per process, keyed by too little, shows here): a, b, a, b, every entry point and every text form
    Interleave { a: Cid, b: Cid },
    /// length `n` (before insertion): an ASCII rejected byte and a multi-byte UTF-8 character (or two different
    /// characters) at every position pair, in both orders: the text entry points must report the same first
    /// offending byte as the byte entry points
    Utf8Mix { cid: Cid, n: usize },
}

/// Rejected bytes chosen around the table edges (anything accepted by the codec is removed).
fn rejected(sp: &Spec) -> Vec<u8> {
    let acc = sp.accepted();
    let mut r: Vec<u8> = vec![
        0, b' ', b'\n', b'@', b'[', b'`', b'{', 0x7f, 0x80, 0xC3, 0xFF, b'U', b'X', b'N', b'-', b'*', b'.', b'?', b'!', b'0', b'1', b'Z', b'z',
    ];
    for &b in &acc {
        if b.is_ascii_alphabetic() {
            r.push(b ^ 0x20); // the other case
            r.push(b.wrapping_add(1));
            r.push(b.wrapping_sub(1));
        }
    }
    r.retain(|b| !acc.contains(b));
    r.sort();
    r.dedup();
    r
}

/// accepted bytes plus a core of six rejected bytes (for the all-strings enumeration (b))
fn charset(sp: &Spec) -> Vec<u8> {
    let mut v = sp.accepted();
    let rej = rejected(sp);
    let twin = v.iter().map(|b| b ^ 0x20).find(|b| rej.contains(b));
    let mut core: Vec<u8> = vec![0, 0x80, 0xFF, b'@'];
    core.extend(twin);
    core.extend([b'X', b'N', b'-', b'U'].iter().filter(|b| rej.contains(b)).take(6 - core.len()));
    core.retain(|b| rej.contains(b));
    v.extend(core);
    v
}

fn lengths(cid: Cid, t: Tier) -> Vec<usize> {
    let bits = cid.bits();
    let mut v = wb_lengths(bits, t.pick(2, 3));
    v.extend(long_lengths(bits));
    if t.thorough() {
        v.extend(0..=(128 / bits + 2));
        v.sort();
        v.dedup();
    }
    v
}

fn short_len(cs: usize, t: Tier) -> usize {
    let budget: f64 = t.pick(1.0e7, 4.0e8);
    let mut l = 1;
    while (cs as f64).powi(l as i32 + 1) <= budget {
        l += 1;
    }
    l
}

fn gen(t: Tier, _seed: u64, emit: &mut dyn FnMut(Case)) {
    for cid in Cid::WITH_CUSTOM {
        let sp = spec::spec(cid);
        for a in 0..=255u8 {
            emit(Case::Pairs { cid, a });
        }
        let cs = charset(&sp).len();
        let lmax = short_len(cs, t);
        for l in 3..=lmax {
            for first in 0..cs {
                emit(Case::Short { cid, l, first });
            }
        }
        for n in lengths(cid, t) {
            emit(Case::Valid { cid, n });
            if n > 0 {
                emit(Case::OneBad { cid, n });
            }
            if n > 1 && n <= 70 {
                emit(Case::TwoBad { cid, n });
            }
        }
        for n in huge_lengths(cid.bits()) {
            emit(Case::Huge { cid, n });
        }
    }
    for cid in Cid::WITH_CUSTOM {
        let spw = 64 / cid.bits();
        for n in [2usize, 3, 5, spw, spw + 1, 2 * spw + 1] {
            emit(Case::Utf8Mix { cid, n });
        }
    }
    for a in Cid::WITH_CUSTOM {
        for b in Cid::WITH_CUSTOM {
            emit(Case::Interleave { a, b });
        }
    }
}

/// every symbol of the codec in table order, then the first three again, cut to `n`
fn sample_text(cid: Cid, n: usize) -> Vec<u8> {
    let sp = spec::spec(cid);
    (0..n).map(|i| sp.syms[i % sp.syms.len()].ch).collect()
}

fn run_text<A: Sx>(text: &[u8], out: &mut Out) {
    let sp = spec::spec(A::CID);
    one::<A>(&sp, text, out);
}

fn run(c: &Case, out: &mut Out) {
    match c {
        Case::Interleave { a, b } => {
            for n in [1usize, 5, 40] {
                let (ta, tb) = (sample_text(*a, n), sample_text(*b, n + 1));
                for _ in 0..2 {
                    dispatch!(*a, run_text(&ta, out));
                    dispatch!(*b, run_text(&tb, out));
                }
            }
            out.observe(&(a, b));
        }
        Case::Utf8Mix { cid, .. } | Case::Pairs { cid, .. } | Case::Short { cid, .. } | Case::Valid { cid, .. } | Case::OneBad { cid, .. } | Case::TwoBad { cid, .. } | Case::Huge { cid, .. } => {
            dispatch!(*cid, run_g(c, out))
        }
    }
}

fn run_g<A: Sx>(c: &Case, out: &mut Out) {
    let sp = spec::spec(A::CID);
    let seed = out.seed;
    match c {
        Case::Pairs { a, .. } => {
            if *a == 0 {
                one::<A>(&sp, &[], out);
            }
            one::<A>(&sp, &[*a], out);
            for b in 0..=255u8 {
                one::<A>(&sp, &[*a, b], out);
            }
        }
        Case::Short { l, first, .. } => {
            let cs = charset(&sp);
            let mut v = vec![cs[*first]; *l];
            all_seqs(*l - 1, cs.len(), &mut |idx| {
                for (k, &i) in idx.iter().enumerate() {
                    v[k + 1] = cs[i as usize];
                }
                one::<A>(&sp, &v, out);
            });
        }
        Case::Valid { n, .. } => {
            let acc = sp.accepted();
            pfamily(*n, acc.len(), seed, &mut |idx| {
                let v: Vec<u8> = idx.iter().map(|&i| acc[i as usize]).collect();
                one::<A>(&sp, &v, out);
            });
        }
        Case::Interleave { .. } => unreachable!(),
        Case::Utf8Mix { n, .. } => {
            let acc = sp.accepted();
            let base: Vec<u8> = (0..*n).map(|i| acc[(i * 3 + 1) % acc.len()]).collect();
            let rej = rejected(&sp);
            let ascii_bad: Vec<u8> = rej.iter().copied().filter(|b| b.is_ascii() && *b != 0).take(3).collect();
            let multi: [&str; 4] = ["\u{e9}", "\u{20ac}", "\u{1F600}", "\u{3b1}"];
            let mut tokens: Vec<Vec<u8>> = ascii_bad.iter().map(|b| vec![*b]).collect();
            tokens.extend(multi.iter().map(|m| m.as_bytes().to_vec()));
            for p in 0..*n {
                for q in p + 1..*n {
                    if *n > 12 && !(p < 2 || q + 2 >= *n || q == p + 1) {
                        continue;
                    }
                    for (i, x) in tokens.iter().enumerate() {
                        for (j, y) in tokens.iter().enumerate() {
                            if i == j || (x.len() == 1 && y.len() == 1) {
                                continue;
                            }
                            let mut v: Vec<u8> = Vec::with_capacity(*n + 8);
                            for k in 0..*n {
                                if k == p {
                                    v.extend_from_slice(x);
                                } else if k == q {
                                    v.extend_from_slice(y);
                                } else {
                                    v.push(base[k]);
                                }
                            }
                            one::<A>(&sp, &v, out);
                        }
                    }
                }
            }
            out.observe(&(A::CID, *n));
        }
        Case::Huge { n, .. } => {
            let n = *n;
            let acc = sp.accepted();
            let rej = rejected(&sp);
            let base: Vec<u8> = bg(n, acc.len(), 4, seed).iter().map(|&i| acc[i as usize]).collect();
            one::<A>(&sp, &base, out);
            let mut v = base.clone();
            // bad bytes at the ends, in the middle and just before/after every power-of-two position
            let mut pos: Vec<usize> = vec![0, 1, n / 2, n - 2, n - 1];
            let mut p2 = 64;
            while p2 < n {
                pos.extend([p2 - 1, p2]);
                p2 *= 2;
            }
            pos.retain(|p| *p < n);
            pos.sort();
            pos.dedup();
            for (k, &p) in pos.iter().enumerate() {
                let b = rej[k % rej.len()];
                v[p] = b;
                one::<A>(&sp, &v, out);
                // a second, different bad byte later on must not be the one reported
                let q = n - 1 - (k % 3);
                if q > p {
                    let keep = v[q];
                    v[q] = rej[(k + 1) % rej.len()];
                    one::<A>(&sp, &v, out);
                    v[q] = keep;
                }
                v[p] = base[p];
            }
        }
        Case::OneBad { n, .. } => {
            let acc = sp.accepted();
            let rej = rejected(&sp);
            let base: Vec<u8> = bg(*n, acc.len(), 2, seed).iter().map(|&i| acc[i as usize]).collect();
            let mut v = base.clone();
            for p in 0..*n {
                for &b in &rej {
                    v[p] = b;
                    one::<A>(&sp, &v, out);
                }
                v[p] = base[p];
            }
        }
        Case::TwoBad { n, .. } => {
            let acc = sp.accepted();
            let rej = rejected(&sp);
            let base: Vec<u8> = bg(*n, acc.len(), 3, seed).iter().map(|&i| acc[i as usize]).collect();
            let mut v = base.clone();
            for p in 0..*n {
                for q in p + 1..*n {
                    let b1 = rej[(p + q) % rej.len()];
                    let b2 = rej[(p + q + 1 + p % (rej.len() - 1)) % rej.len()];
                    v[p] = b1;
                    v[q] = if b2 == b1 { rej[(p + q + 2) % rej.len()] } else { b2 };
                    one::<A>(&sp, &v, out);
                    v[p] = base[p];
                    v[q] = base[q];
                }
            }
        }
    }
}

fn esc(v: &[u8]) -> String {
    let s: String = v.iter().flat_map(|b| std::ascii::escape_default(*b)).map(|b| b as char).collect();
    if s.len() > 120 {
        format!("{}…({} bytes)", &s[..120], v.len())
    } else {
        s
    }
}

type R<A> = Result<Seq<A>, ParseBioError>;

fn same<A: Codec>(a: &R<A>, b: &R<A>) -> bool {
    match (a, b) {
        (Ok(x), Ok(y)) => x == y && x.len() == y.len() && x.to_string() == y.to_string(),
        (Err(x), Err(y)) => x == y,
        _ => false,
    }
}

/// One byte string through every entry point, against the spec table.
fn one<A: Sx>(sp: &Spec, v: &[u8], out: &mut Out) {
    let n = A::CID.name();
    out.units += 1;
    out.stage = "Seq::try_from(&[u8])";
    let got: R<A> = match out.catch(|| Seq::<A>::try_from(v)) {
        Ok(g) => g,
        Err(m) => {
            out.checks += 1;
            out.violation(format!("{n}/parse/panics"), format!("parsing {:?} panicked: {m}", esc(v)));
            return;
        }
    };
    let parsed: Vec<Option<usize>> = v.iter().map(|&b| sp.parse(b)).collect();
    let first_bad = parsed.iter().position(|p| p.is_none());
    out.dim("len", v.len() as i64);
    match (&got, first_bad) {
        (Ok(_), Some(p)) => {
            out.checks += 1;
            out.violation(
                format!("{n}/parse/accepts-invalid-byte"),
                format!("parsing {:?} succeeded although byte {:#04x} at position {p} is not a symbol character", esc(v), v[p]),
            );
        }
        (Err(e), None) => {
            out.checks += 1;
            out.violation(format!("{n}/parse/rejects-valid-string"), format!("parsing {:?} failed with {:?}", esc(v), e));
        }
        (Err(e), Some(p)) => {
            out.check(*e == ParseBioError::UnrecognisedBase(v[p]), || {
                (
                    format!("{n}/parse/wrong-error"),
                    format!("parsing {:?} reported {:?}; the first offending byte is {:#04x} at position {p}", esc(v), e, v[p]),
                )
            });
            out.observe(&(A::CID, 0u8, v[p]));
        }
        (Ok(seq), None) => {
            out.stage = "len/get/iter/to_string";
            let want_chars: Vec<u8> = parsed.iter().map(|p| sp.syms[p.unwrap()].ch).collect();
            out.check(seq.len() == v.len(), || {
                (format!("{n}/parse/wrong-length"), format!("parsing {:?} gave length {} (want {})", esc(v), seq.len(), v.len()))
            });
            let mut ok = seq.len() == v.len();
            if ok {
                for (i, p) in parsed.iter().enumerate() {
                    let s = &sp.syms[p.unwrap()];
                    let g = seq.get(i);
                    let good = g.map(|a| (a.to_char() as u32, a.to_bits())) == Some((s.ch as u32, s.code));
                    out.check(good, || {
                        (
                            format!("{n}/parse/wrong-symbol-at-position"),
                            format!("parsing {:?}: symbol {i} is {:?}, want {:?}", esc(v), g, s.ch as char),
                        )
                    });
                    ok &= good;
                }
                let it: Vec<A> = seq.iter().take(v.len() + 5).collect();
                let via_get: Vec<A> = (0..v.len()).filter_map(|i| seq.get(i)).collect();
                out.check(it == via_get, || {
                    (format!("{n}/parse/iter-disagrees-with-get"), format!("parsing {:?}: iter() and get(i) disagree", esc(v)))
                });
            }
            let shown = seq.to_string();
            out.check(shown.as_bytes() == &want_chars[..], || {
                (
                    format!("{n}/display/wrong-text"),
                    format!("parsing {:?} displays as {:?}, want {:?}", esc(v), shown, esc(&want_chars)),
                )
            });
            // every way of turning the sequence into text gives the same text
            let forms = [
                ("String::from(&Seq)", String::from(seq)),
                ("String::from(Seq)", String::from(seq.clone())),
                ("String::from(&SeqSlice)", String::from(&seq[..])),
                ("format!({})", format!("{}", seq)),
                ("format!({}) of slice", format!("{}", &seq[..])),
                ("format!({:>w$})", format!("{:>w$}", seq, w = v.len() / 2).trim_start().to_string()),
                ("format!({:>12})", format!("{:>12}", seq).trim_start().to_string()),
                ("format!({:<9})", format!("{:<9}", seq).trim_end().to_string()),
                ("format!({:^7})", format!("{:^7}", &seq[..]).trim().to_string()),
                ("format!({:_>5})", format!("{:_>5}", seq).trim_start_matches('_').to_string()),
            ];
            for (nm, t) in forms {
                out.check(t == shown, || (format!("{n}/display/{nm}-differs-from-to_string"), format!("{nm} of parsed {:?} = {:?}, to_string() = {:?}", esc(v), t, shown)));
            }
            // a formatter that fails half way (a full buffer) leaves nothing behind that shows up in the next output
            if v.len() >= 2 && v.len() <= 70 {
                let tail = &seq[1..];
                let after = display_after_failed_write(seq, v.len(), &tail);
                out.check(after.as_bytes() == &want_chars[1..], || {
                    (format!("{n}/display/output-after-a-failed-write-is-wrong"), format!("after formatting {:?} into a sink that failed, its tail displays as {:?}", esc(v), after))
                });
            }
            // display -> parse -> display is the identity (at symbol level)
            out.stage = "parse(display(seq))";
            let again = out.catch(|| Seq::<A>::try_from(shown.as_str()));
            let good = matches!(&again, Ok(Ok(s2)) if s2 == seq && s2.to_string() == shown);
            out.check(good, || {
                (
                    format!("{n}/display/does-not-parse-back"),
                    format!("display {:?} of parsed {:?} does not parse back to an equal sequence: {:?}", shown, esc(v), again.map(|r| r.map(|s| s.to_string()))),
                )
            });
            // symbol lists through FromIterator / Extend / From<&Vec<A>>
            if ok {
                out.stage = "FromIterator/Extend/From<&Vec>";
                let list: Vec<A> = (0..v.len()).filter_map(|i| seq.get(i)).collect();
                let c1: Seq<A> = list.iter().copied().collect();
                let mut c2 = Seq::<A>::new();
                Extend::extend(&mut c2, list.iter().copied());
                let mut c2b = Seq::<A>::new();
                c2b.extend(list.iter().copied());
                let c3 = Seq::<A>::from(&list);
                // iterators whose size_hint is not exact: lower bound 0 (filter) and 0 < lower < actual (chain of exact + filter)
                let k = list.len() / 2;
                let c4: Seq<A> = list.iter().copied().filter(|_| true).collect();
                let c5: Seq<A> = list[..k].iter().copied().chain(list[k..].iter().copied().filter(|_| true)).collect();
                let mut c6 = Seq::<A>::new();
                c6.extend(list[..k].iter().copied().chain(list[k..].iter().copied().filter(|_| true)));
                for (nm, c) in [("FromIterator", &c1), ("Extend", &c2), ("extend", &c2b), ("From<&Vec>", &c3), ("FromIterator(filter)", &c4), ("FromIterator(chain+filter)", &c5), ("extend(chain+filter)", &c6)] {
                    out.check(c == seq && c.len() == seq.len() && c.to_string() == shown, || {
                        (
                            format!("{n}/collect/{nm}-differs-from-parse"),
                            format!("{nm} of the symbols of {:?} gives {:?}", esc(v), c.to_string()),
                        )
                    });
                }
            }
            out.observe(&(A::CID, 1u8, v.len(), shown.len()));
        }
    }
    // every other entry point must agree with the byte-slice parser
    out.stage = "other entry points";
    let r2 = out.catch(|| Seq::<A>::try_from(v.to_vec()));
    out.check(matches!(&r2, Ok(r) if same(r, &got)), || {
        (format!("{n}/entry/Vec<u8>-disagrees"), format!("TryFrom<Vec<u8>> on {:?} disagrees with TryFrom<&[u8]>", esc(v)))
    });
    if let Ok(s) = std::str::from_utf8(v) {
        let owned: String = s.to_string();
        let r3 = out.catch(|| Seq::<A>::try_from(s));
        let r4 = out.catch(|| Seq::<A>::try_from(owned.clone()));
        let r5 = out.catch(|| Seq::<A>::try_from(&owned));
        let r6 = out.catch(|| Seq::<A>::from_str(s));
        let r7 = out.catch(|| s.parse::<Seq<A>>());
        for (nm, r) in [("&str", &r3), ("String", &r4), ("&String", &r5), ("FromStr", &r6), ("str::parse", &r7)] {
            out.check(matches!(r, Ok(r) if same(r, &got)), || {
                (format!("{n}/entry/{nm}-disagrees"), format!("{nm} entry point on {:?} disagrees with TryFrom<&[u8]>", esc(v)))
            });
        }
    }
}

fn main() {
    main_loop("C01", gen, run, |t| {
        let per: Vec<_> = Cid::ALL
            .iter()
            .map(|&c| {
                let sp = spec::spec(c);
                let cs = charset(&sp).len();
                json!({"codec": c.name(), "charset": cs, "rejected_set": rejected(&sp).len(), "short_len": short_len(cs, t), "family_lengths": lengths(c, t)})
            })
            .collect();
        json!({"per_codec": per, "entry_points": ["TryFrom<&[u8]>", "TryFrom<Vec<u8>>", "TryFrom<&str>", "TryFrom<String>", "TryFrom<&String>", "FromStr", "str::parse", "FromIterator<A>", "Extend<A>", "Seq::extend", "From<&Vec<A>>"]})
    });
}
