//! C15 — custom codon tables are faithful bidirectional maps, independent of
//! hash-map iteration order.  Every partial map from a 6-codon universe to a
//! 3-amino universe; for each map every one of the n! iteration orders of the
//! source HashMap is driven through `from_map` (the order is observed before
//! the call; fresh RandomStates are drawn until all orders have occurred).

use bio_seq::translation::{CodonTable, PartialTranslationTable, TranslationError};
use bsv::fixture::*;
use bsv::run::catch;
use bsv::*;
use serde::{Deserialize, Serialize};
use serde_json::json;
use std::collections::{HashMap, HashSet};

#[derive(Serialize, Deserialize, Hash, Clone, Debug)]
enum Case {
    /// one partial map: assign[i] in 0..=3 (0 = codon i unmapped, 1..=3 = amino universe index) for the 6 universe codons
    Map { cid: Cid, assign: [u8; 6] },
    /// construction from arrays (iteration order not observable): supplementary
    Arrays { cid: Cid },
    /// one amino acid with `n` codons (counter widths: 255..257, 511..513, 65535..65537), one with exactly one, one with two
    Many { cid: Cid, n: usize },
}

fn max_entries(t: Tier) -> usize {
    t.pick(5, 6)
}

fn gen(t: Tier, _seed: u64, emit: &mut dyn FnMut(Case)) {
    for cid in [Cid::Dna, Cid::Iupac] {
        let mut a = [0u8; 6];
        loop {
            if a.iter().filter(|x| **x != 0).count() <= max_entries(t) {
                emit(Case::Map { cid, assign: a });
            }
            let mut i = 0;
            loop {
                if i == 6 {
                    break;
                }
                a[i] += 1;
                if a[i] < 4 {
                    break;
                }
                a[i] = 0;
                i += 1;
            }
            if i == 6 {
                break;
            }
        }
        emit(Case::Arrays { cid });
        let total = (1..=4u32).map(|l| cid_symbols(cid).pow(l)).sum::<usize>();
        for n in [255usize, 256, 257, 258, 511, 512, 513, 65535, 65536, 65537] {
            if n + 3 <= total {
                emit(Case::Many { cid, n });
            }
        }
    }
}

fn cid_symbols(cid: Cid) -> usize {
    bsv::spec::spec(cid).syms.len()
}

/// the i-th codon of lengths 1..=4 in length-then-lexicographic order (symbol indices)
fn nth_codon(mut i: usize, m: usize) -> Vec<u8> {
    let mut l = 1;
    while i >= m.pow(l as u32) {
        i -= m.pow(l as u32);
        l += 1;
    }
    (0..l).map(|p| ((i / m.pow(p as u32)) % m) as u8).collect()
}

/// codon universe: 6 keys of mixed lengths 1..4 (symbol indices), and non-key query codons
fn universe<A: Sx>() -> (Vec<Vec<A>>, Vec<Vec<A>>) {
    let m = alphabet::<A>().len() as u8;
    let k = |v: &[u8]| syms::<A>(&v.iter().map(|x| x % m).collect::<Vec<u8>>());
    let keys = vec![k(&[0]), k(&[0, 1]), k(&[0, 1, 2]), k(&[0, 1, 2, 3]), k(&[3, 3, 3]), k(&[1, 0])];
    let non = vec![k(&[2]), k(&[0, 0]), k(&[0, 1, 3]), k(&[0, 1, 2, 3, 0]), k(&[]), k(&[3, 3]), k(&[1, 0, 0])];
    (keys, non)
}

fn aminos() -> [Amino; 4] {
    let al = alphabet::<Amino>();
    // three mapped aminos and one that is never a value
    [al[0], al[10], al[20], al[5]]
}

fn factorial(n: usize) -> usize {
    (1..=n).product::<usize>().max(1)
}

fn class<A: Codec, B: Codec>(e: &TranslationError<A, B>) -> &'static str {
    match e {
        TranslationError::AmbiguousCodon(_) => "AmbiguousCodon",
        TranslationError::AmbiguousTranslation(_) => "AmbiguousTranslation",
        TranslationError::InvalidCodon(_) => "InvalidCodon",
        TranslationError::InvalidAmino(_) => "InvalidAmino",
    }
}

/// all queries against one constructed table
fn query<A: Sx>(table: &CodonTable<A, Amino>, entries: &[(Vec<A>, Amino)], order: &str, offsets: &[usize], out: &mut Out) {
    let cn = A::CID.name();
    let (keys, non) = universe::<A>();
    let am = aminos();
    for codon in keys.iter().chain(non.iter()) {
        let want: Option<Amino> = entries.iter().find(|(k, _)| codes(k) == codes(codon)).map(|(_, v)| *v);
        for &s in offsets {
            let pl = place(codon, s, 0);
            out.stage = "CodonTable::try_to_amino";
            let got = catch(|| table.try_to_amino(pl.view()));
            let ok = match (&got, want) {
                (Ok(Ok(a)), Some(w)) => *a == w,
                (Ok(Err(TranslationError::InvalidCodon(_))), None) => true,
                _ => false,
            };
            out.check(ok, || {
                let classn = match (&got, want) {
                    (Ok(Ok(_)), Some(_)) => "wrong-amino",
                    (Ok(Ok(_)), None) => "translates-a-non-key",
                    (Ok(Err(_)), Some(_)) => "refuses-a-key",
                    (Ok(Err(_)), None) => "wrong-error-kind",
                    (Err(_), _) => "panics",
                };
                (
                    format!("{cn}/codon-table/try_to_amino-{classn}"),
                    format!(
                        "table {:?} (source map iteration order {order}): try_to_amino({:?} at slice offset {s}) = {:?}, want {:?}",
                        entries.iter().map(|(k, v)| format!("{}->{}", show(k), v.to_char())).collect::<Vec<_>>(),
                        show(codon),
                        got.as_ref().map(|r| r.as_ref().map(|a| a.to_char()).map_err(class)),
                        want.map(|a| a.to_char())
                    ),
                )
            });
        }
    }
    for b in am {
        let pre: Vec<&Vec<A>> = entries.iter().filter(|(_, v)| *v == b).map(|(k, _)| k).collect();
        out.stage = "CodonTable::try_to_codon";
        let got = catch(|| table.try_to_codon(b));
        let ok = match (&got, pre.len()) {
            (Ok(Err(TranslationError::InvalidAmino(_))), 0) => true,
            (Ok(Ok(c)), 1) => matches(c, pre[0]),
            (Ok(Err(TranslationError::AmbiguousCodon(_))), n) if n >= 2 => true,
            _ => false,
        };
        out.check(ok, || {
            let classn = match (&got, pre.len()) {
                (Err(_), _) => "panics",
                (Ok(Ok(_)), 0) => "returns-codon-for-unmapped-amino",
                (Ok(Ok(_)), 1) => "wrong-codon",
                (Ok(Ok(_)), _) => "returns-codon-for-ambiguous-amino",
                (Ok(Err(_)), 1) => "refuses-unique-preimage",
                (Ok(Err(_)), _) => "wrong-error-kind",
            };
            (
                format!("{cn}/codon-table/try_to_codon-{classn}"),
                format!(
                    "table {:?} (source map iteration order {order}): try_to_codon({:?}) = {:?}; it has {} preimage(s) {:?}",
                    entries.iter().map(|(k, v)| format!("{}->{}", show(k), v.to_char())).collect::<Vec<_>>(),
                    b.to_char(),
                    got.as_ref().map(|r| r.as_ref().map(|c| c.to_string()).map_err(class)),
                    pre.len(),
                    pre.iter().map(|k| show(k)).collect::<Vec<_>>()
                ),
            )
        });
    }
}

fn run(c: &Case, out: &mut Out) {
    match c {
        Case::Map { cid, .. } | Case::Arrays { cid } | Case::Many { cid, .. } => match cid {
            Cid::Dna => run_g::<Dna>(c, out),
            Cid::Iupac => run_g::<Iupac>(c, out),
            _ => out.violation("MACHINERY/codec", format!("{cid:?}")),
        },
    }
}

fn run_g<A: Sx>(c: &Case, out: &mut Out) {
    let (keys, _) = universe::<A>();
    let am = aminos();
    let nof = noff(A::BITS as usize);
    match c {
        Case::Map { assign, .. } => {
            let entries: Vec<(Vec<A>, Amino)> = assign.iter().enumerate().filter(|(_, a)| **a != 0).map(|(i, a)| (keys[i].clone(), am[*a as usize - 1])).collect();
            let n = entries.len();
            let total = factorial(n);
            let mut seen: HashSet<Vec<u8>> = HashSet::new();
            let all_offsets: Vec<usize> = (0..nof).collect();
            let few: Vec<usize> = vec![0, 1, nof - 1];
            let cap = 400 * total + 2000;
            let mut attempts = 0usize;
            while seen.len() < total && attempts < cap {
                attempts += 1;
                // a fresh HashMap (fresh RandomState); its iteration order is read before it is handed over
                let hm: HashMap<Seq<A>, Amino> = entries.iter().map(|(k, v)| (build(k), *v)).collect();
                let order: Vec<u8> = hm.keys().map(|k| entries.iter().position(|(e, _)| codes(e) == codes(&read(k))).unwrap() as u8).collect();
                if !seen.insert(order.clone()) {
                    continue;
                }
                out.units += 1;
                out.edges += 1;
                let table = match catch(|| CodonTable::<A, Amino>::from_map(hm)) {
                    Ok(t) => t,
                    Err(m) => {
                        out.violation(format!("{}/codon-table/from_map-panics", A::CID.name()), m);
                        continue;
                    }
                };
                let o = format!("{order:?}");
                query::<A>(&table, &entries, &o, if seen.len() == 1 { &all_offsets } else { &few }, out);
            }
            out.states += seen.len() as u64;
            out.flag("all n! source-map iteration orders were driven through from_map for every map", seen.len() == total);
            out.dim("entries", n as i64);
            out.dim("orders_seen", seen.len() as i64);
            out.count("hash maps built", attempts as u64);
            out.observe(&(A::CID, assign));
        }
        Case::Many { n, .. } => {
            let n = *n;
            let cn = A::CID.name();
            let m = alphabet::<A>().len();
            // codons 0..n -> am[0]; codon n -> am[1]; codons n+1, n+2 -> am[2]; am[3] unmapped
            let amino_of = |i: usize| if i < n { am[0] } else if i == n { am[1] } else { am[2] };
            for rep in 0..3 {
                let hm: HashMap<Seq<A>, Amino> = (0..n + 3).map(|i| (build(&syms::<A>(&nth_codon(i, m))), amino_of(i))).collect();
                out.units += 1;
                let table = match catch(|| CodonTable::<A, Amino>::from_map(hm)) {
                    Ok(t) => t,
                    Err(e) => {
                        out.checks += 1;
                        out.violation(format!("{cn}/codon-table/from_map-panics"), format!("from_map of a map giving one amino acid {n} codons (repetition {rep}): {e}"));
                        continue;
                    }
                };
                for (b, want) in [(am[0], Err("AmbiguousCodon")), (am[1], Ok(show(&syms::<A>(&nth_codon(n, m))))), (am[2], Err("AmbiguousCodon")), (am[3], Err("InvalidAmino"))] {
                    out.stage = "CodonTable::try_to_codon (large table)";
                    let got = catch(|| table.try_to_codon(b)).map(|r| r.map(|c| c.to_string()).map_err(|e| class(&e)));
                    out.check(got == Ok(want.clone()), || {
                        (
                            format!("{cn}/codon-table/try_to_codon-wrong-with-many-codons-per-amino"),
                            format!("map with {n} codons for {:?}, 1 for {:?}, 2 for {:?}: try_to_codon({:?}) = {:?}, want {:?}", am[0].to_char(), am[1].to_char(), am[2].to_char(), b.to_char(), got, want),
                        )
                    });
                }
                for i in (0..n + 3).step_by(if n > 1000 { 97 } else { 1 }).chain(n.saturating_sub(2)..n + 3) {
                    let codon = syms::<A>(&nth_codon(i, m));
                    let pl = place(&codon, i % nof, 0);
                    out.stage = "CodonTable::try_to_amino (large table)";
                    let got = catch(|| table.try_to_amino(pl.view()));
                    out.check(matches!(&got, Ok(Ok(a)) if *a == amino_of(i)), || {
                        (
                            format!("{cn}/codon-table/try_to_amino-wrong-with-many-codons-per-amino"),
                            format!("map with {n}+3 entries: try_to_amino({}) = {:?}, want {:?}", show(&codon), got.as_ref().map(|r| r.as_ref().map(|a| a.to_char()).map_err(class)), amino_of(i).to_char()),
                        )
                    });
                }
                let non = syms::<A>(&nth_codon(n + 3, m));
                let got = catch(|| table.try_to_amino(&build(&non)));
                out.check(matches!(&got, Ok(Err(TranslationError::InvalidCodon(_)))), || {
                    (format!("{cn}/codon-table/try_to_amino-translates-a-non-key"), format!("map with {n}+3 entries: try_to_amino(non-key {}) is not InvalidCodon", show(&non)))
                });
            }
            out.dim("codons_per_amino", n as i64);
            out.observe(&(A::CID, n));
        }
        Case::Arrays { .. } => {
            // arrays convert through From<[(K, V); N]> for HashMap; the order is not observable: supplementary repetition
            let e = |i: usize, a: usize| (build(&keys[i]), am[a]);
            for rep in 0..50 {
                let t = catch(|| CodonTable::<A, Amino>::from_map([e(0, 0), e(1, 1), e(2, 0), e(4, 2)]));
                if let Ok(t) = t {
                    let entries = vec![(keys[0].clone(), am[0]), (keys[1].clone(), am[1]), (keys[2].clone(), am[0]), (keys[4].clone(), am[2])];
                    query::<A>(&t, &entries, &format!("array repetition {rep}"), &[0, 3], out);
                } else {
                    out.violation(format!("{}/codon-table/from_map-panics", A::CID.name()), "from_map(array) panicked");
                }
                // the same codon listed more than once: `Into<HashMap>` keeps one entry per codon (the last value)
                for (list, model) in [
                    (vec![(0usize, 0usize), (1, 1), (0, 0)], vec![(0usize, 0usize), (1, 1)]),
                    (vec![(0, 0), (1, 1), (0, 2)], vec![(0, 2), (1, 1)]),
                    (vec![(2, 1), (2, 1), (2, 1)], vec![(2, 1)]),
                    (vec![(0, 0), (4, 0), (0, 1), (4, 2)], vec![(0, 1), (4, 2)]),
                ] {
                    let arr: Vec<(Seq<A>, Amino)> = list.iter().map(|&(k, a)| e(k, a)).collect();
                    let entries: Vec<(Vec<A>, Amino)> = model.iter().map(|&(k, a)| (keys[k].clone(), am[a])).collect();
                    let t = match arr.len() {
                        3 => {
                            let a3: [(Seq<A>, Amino); 3] = arr.try_into().unwrap();
                            catch(|| CodonTable::<A, Amino>::from_map(a3))
                        }
                        _ => {
                            let a4: [(Seq<A>, Amino); 4] = arr.try_into().unwrap();
                            catch(|| CodonTable::<A, Amino>::from_map(a4))
                        }
                    };
                    match t {
                        Ok(t) => query::<A>(&t, &entries, &format!("array with a repeated codon {list:?}, repetition {rep}"), &[0, 2], out),
                        Err(m) => out.violation(format!("{}/codon-table/from_map-panics", A::CID.name()), m),
                    }
                }
                let t0 = catch(|| CodonTable::<A, Amino>::from_map([] as [(Seq<A>, Amino); 0]));
                if let Ok(t0) = t0 {
                    query::<A>(&t0, &[], "empty array", &[0], out);
                }
            }
            out.count("array constructions (supplementary, order not observable)", 100);
        }
    }
}

fn main() {
    main_loop("C15", gen, run, |t| {
        json!({
            "universe": "6 key codons of lengths 1,2,3,4,3,2 over the codec's first symbols; 7 non-key query codons incl. the empty one and prefixes/extensions of keys; 3 mapped aminos + 1 never mapped",
            "maps": "all 4^6 assignments with at most max_entries entries", "max_entries": max_entries(t),
            "orders": "for each map all n! iteration orders of the source HashMap, observed before from_map; fresh RandomStates drawn until complete (cap 400*n!+2000 attempts)",
            "queries": "every universe and non-key codon as a slice at every offset (first order) / 3 offsets (other orders); every amino of the universe",
        })
    });
}
