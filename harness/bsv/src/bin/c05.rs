//! C05 — every codec's tables are mutually consistent and match the documented
//! alphabet.  The domain is finite (7 codecs x 256 bytes x 4 decoders, plus
//! every symbol) and is enumerated completely.

use bsv::spec::{self, Spec};
use bsv::*;
use serde::{Deserialize, Serialize};
use serde_json::json;

#[derive(Serialize, Deserialize, Hash, Clone, Debug)]
enum Case {
    /// cross-checks inside the hand-typed oracle
    OracleSelfTest,
    /// BITS, items() as a set, pairwise distinctness
    Alphabet { cid: Cid },
    /// all four decoders on one byte value
    Byte { cid: Cid, b: u8 },
    /// every per-symbol law for the i-th entry of items()
    Sym { cid: Cid, i: usize },
    /// symbol-level conversions between the DNA alphabets for one byte value / one base
    Conv { b: u8 },
}

fn gen(_t: Tier, _seed: u64, emit: &mut dyn FnMut(Case)) {
    emit(Case::OracleSelfTest);
    for b in 0..=255u8 {
        emit(Case::Conv { b });
    }
    for cid in Cid::ALL {
        emit(Case::Alphabet { cid });
        for b in 0..=255u8 {
            emit(Case::Byte { cid, b });
        }
        // the spec's symbol count bounds items(); a longer items() is caught by Alphabet
        for i in 0..spec::spec(cid).syms.len().max(1) + 2 {
            emit(Case::Sym { cid, i });
        }
    }
}

fn run(c: &Case, out: &mut Out) {
    match c {
        Case::OracleSelfTest => {
            for e in spec::self_test() {
                // a broken oracle is a machinery error, not a verdict on the code
                out.violation("MACHINERY/oracle-self-test", e);
            }
            out.checks += 1;
        }
        Case::Conv { b } => conv_case(*b, out),
        Case::Alphabet { cid } => dispatch!(*cid, alphabet_case(out)),
        Case::Byte { cid, b } => dispatch!(*cid, byte_case(*b, out)),
        Case::Sym { cid, i } => dispatch!(*cid, sym_case(*i, out)),
    }
}

/// text::Dna -> dna::Dna succeeds exactly for A, C, G, T; dna::Dna -> text / IUPAC keeps the letter
fn conv_case(b: u8, out: &mut Out) {
    out.stage = "dna::Dna::try_from(text::Dna)";
    let t = TDna::unsafe_from_bits(b);
    let r = out.catch(|| Dna::try_from(t));
    let want = matches!(b, b'A' | b'C' | b'G' | b'T');
    let ok = match &r {
        Ok(Ok(d)) => want && d.to_char() as u8 == b,
        Ok(Err(_)) => !want,
        Err(_) => false,
    };
    out.check(ok, || {
        let class = match &r {
            Ok(Ok(_)) if !want => "accepts-byte-outside-ACGT",
            Ok(Ok(_)) => "wrong-base",
            Ok(Err(_)) => "rejects-ACGT",
            Err(_) => "panics",
        };
        (format!("text::Dna->dna::Dna/{class}"), format!("Dna::try_from(text symbol {b:#04x} {:?}) = {:?}", b as char, r))
    });
    if let Some(d) = Dna::try_from_ascii(b) {
        out.stage = "text::Dna::from(dna::Dna) / Iupac::from(dna::Dna)";
        let r = out.catch(|| (TDna::from(d).to_char(), Iupac::from(d).to_char(), TDna::from(d).to_bits()));
        out.check(r == Ok((b as char, b as char, b)), || ("dna::Dna->text/iupac/letter-not-preserved".into(), format!("conversions of {:?}: {:?}", b as char, r)));
    }
    out.observe(&(255u8, b, ok));
}

fn nm<A: Sx>() -> &'static str {
    A::CID.name()
}

fn alphabet_case<A: Sx>(out: &mut Out) {
    let sp: Spec = spec::spec(A::CID);
    let n = nm::<A>();
    out.stage = "items";
    let items = alphabet::<A>();
    out.check(A::BITS as usize == sp.bits, || {
        (format!("{n}/BITS/wrong-width"), format!("BITS = {} but the documented width is {}", A::BITS, sp.bits))
    });
    out.check(items.len() == sp.syms.len(), || {
        (
            format!("{n}/items/wrong-count"),
            format!("items() yields {} symbols, documented alphabet has {}", items.len(), sp.syms.len()),
        )
    });
    out.stage = "to_char/to_bits";
    for (i, a) in items.iter().enumerate() {
        for (j, b) in items.iter().enumerate().skip(i + 1) {
            out.check(a.to_bits() != b.to_bits(), || {
                (format!("{n}/to_bits/duplicate-code"), format!("items {i} and {j} share code {:#b}", a.to_bits()))
            });
            out.check(a.to_char() != b.to_char(), || {
                (format!("{n}/to_char/duplicate-char"), format!("items {i} and {j} share display char {:?}", a.to_char()))
            });
            out.check(a != b, || (format!("{n}/items/duplicate-symbol"), format!("items {i} and {j} are equal")));
        }
    }
    for s in &sp.syms {
        out.check(items.iter().any(|a| a.to_char() == s.ch as char), || {
            (format!("{n}/items/missing-symbol"), format!("documented symbol {:?} is not in items()", s.ch as char))
        });
    }
    if A::HAS_ORD && A::CID == Cid::Dna {
        // A < C < G < T
        let by = |ch: char| items.iter().copied().find(|a| a.to_char() == ch);
        if let (Some(a), Some(c), Some(g), Some(t)) = (by('A'), by('C'), by('G'), by('T')) {
            let lt = |x: A, y: A| x.cmp1(y) == Some(std::cmp::Ordering::Less);
            out.check(lt(a, c) && lt(c, g) && lt(g, t) && lt(a, t), || {
                (format!("{n}/Ord/not-A<C<G<T"), "symbol order is not A < C < G < T".to_string())
            });
        }
    }
    out.observe(&(A::CID, items.len()));
}

fn byte_case<A: Sx>(b: u8, out: &mut Out) {
    let sp = spec::spec(A::CID);
    let n = nm::<A>();

    // --- text decoders -----------------------------------------------------------------
    out.stage = "try_from_ascii";
    let got = match out.catch(|| A::try_from_ascii(b)) {
        Ok(g) => g,
        Err(m) => {
            out.violation(format!("{n}/try_from_ascii/panics"), format!("try_from_ascii({b:#04x}) panicked: {m}"));
            None
        }
    };
    let want = sp.parse(b);
    match (got, want) {
        (None, None) => {
            out.checks += 1;
        }
        (Some(a), None) => {
            out.checks += 1;
            out.violation(
                format!("{n}/try_from_ascii/accepts-undocumented-byte"),
                format!("try_from_ascii({b:#04x}) = Some({:?}) but the byte is not in the documented alphabet", a),
            )
        }
        (None, Some(i)) => {
            out.checks += 1;
            out.violation(
                format!("{n}/try_from_ascii/rejects-documented-byte"),
                format!("try_from_ascii({:?}) = None, documented symbol {:?}", b as char, sp.syms[i].ch as char),
            )
        }
        (Some(a), Some(i)) => {
            let s = &sp.syms[i];
            out.check(a.to_char() == s.ch as char && a.to_bits() == s.code, || {
                (
                    format!("{n}/try_from_ascii/wrong-symbol"),
                    format!(
                        "try_from_ascii({:?}) = {:?} (char {:?}, code {:#b}); documented symbol {:?} code {:#b}",
                        b as char,
                        a,
                        a.to_char(),
                        a.to_bits(),
                        s.ch as char,
                        s.code
                    ),
                )
            });
        }
    }
    if let Some(a) = got {
        out.stage = "unsafe_from_ascii";
        match out.catch(|| A::unsafe_from_ascii(b)) {
            Ok(u) => {
                out.check(u == a, || {
                    (
                        format!("{n}/unsafe_from_ascii/disagrees-with-try"),
                        format!("unsafe_from_ascii({:?}) = {:?} but try_from_ascii gives {:?}", b as char, u, a),
                    )
                });
            }
            Err(m) => {
                out.checks += 1;
                out.violation(
                    format!("{n}/unsafe_from_ascii/panics-on-accepted-byte"),
                    format!("unsafe_from_ascii({:?}) panicked ({m}) although try_from_ascii accepts it", b as char),
                )
            }
        }
    }

    // --- bit decoders ------------------------------------------------------------------
    out.stage = "try_from_bits";
    let got = match out.catch(|| A::try_from_bits(b)) {
        Ok(g) => g,
        Err(m) => {
            out.violation(format!("{n}/try_from_bits/panics"), format!("try_from_bits({b:#010b}) panicked: {m}"));
            None
        }
    };
    let want = sp.decode(b);
    match (got, want) {
        (None, None) => {
            out.checks += 1;
        }
        (Some(a), None) => {
            out.checks += 1;
            let how = if a.to_bits() == b { "as-itself" } else { "as-another-symbol" };
            out.violation(
                format!("{n}/try_from_bits/accepts-undocumented-pattern-{how}"),
                format!(
                    "try_from_bits({b:#010b}) = Some({:?}) but the pattern is outside the documented table",
                    a
                ),
            )
        }
        (None, Some(i)) => {
            out.checks += 1;
            out.violation(
                format!("{n}/try_from_bits/rejects-documented-pattern"),
                format!("try_from_bits({b:#010b}) = None, documented symbol {:?}", sp.syms[i].ch as char),
            )
        }
        (Some(a), Some(i)) => {
            let s = &sp.syms[i];
            out.check(a.to_char() == s.ch as char && a.to_bits() == s.code, || {
                (
                    format!("{n}/try_from_bits/wrong-symbol"),
                    format!(
                        "try_from_bits({b:#010b}) = {:?} (char {:?}); documented symbol {:?}",
                        a,
                        a.to_char(),
                        s.ch as char
                    ),
                )
            });
        }
    }
    if let Some(a) = got {
        out.stage = "unsafe_from_bits";
        match out.catch(|| A::unsafe_from_bits(b)) {
            Ok(u) => {
                out.check(u == a, || {
                    (
                        format!("{n}/unsafe_from_bits/disagrees-with-try"),
                        format!("unsafe_from_bits({b:#010b}) = {:?} but try_from_bits gives {:?}", u, a),
                    )
                });
            }
            Err(m) => {
                out.checks += 1;
                out.violation(
                    format!("{n}/unsafe_from_bits/panics-on-accepted-pattern"),
                    format!("unsafe_from_bits({b:#010b}) panicked ({m}) although try_from_bits accepts it"),
                )
            }
        }
    }
    out.observe(&(A::CID, b, got.map(|a| a.to_bits())));
    out.dim("byte", b as i64);
}

fn sym_case<A: Sx>(i: usize, out: &mut Out) {
    let sp = spec::spec(A::CID);
    let n = nm::<A>();
    out.stage = "items";
    let items = alphabet::<A>();
    let Some(&a) = items.get(i) else {
        return;
    };
    out.stage = "to_char";
    let ch = a.to_char();
    let code = a.to_bits();
    let Some(si) = (ch.is_ascii()).then(|| sp.by_char(ch as u8)).flatten() else {
        out.checks += 1;
        out.violation(
            format!("{n}/to_char/undocumented-char"),
            format!("symbol {:?} displays as {:?}, which is not a documented symbol character", a, ch),
        );
        return;
    };
    let s = &sp.syms[si];
    out.stage = "to_bits";
    out.check(code == s.code, || {
        (
            format!("{n}/to_bits/wrong-code"),
            format!("symbol {:?} has code {:#b}, documented {:#b}", ch, code, s.code),
        )
    });
    out.check((code as usize) < (1usize << A::BITS), || {
        (format!("{n}/to_bits/exceeds-width"), format!("code {:#b} of {:?} does not fit in {} bits", code, ch, A::BITS))
    });
    out.stage = "try_from_bits";
    for c in std::iter::once(s.code).chain(s.alts.iter().copied()) {
        let got = out.catch(|| A::try_from_bits(c)).ok().flatten();
        out.check(got == Some(a), || {
            (
                format!("{n}/try_from_bits/code-does-not-decode-to-symbol"),
                format!("try_from_bits({c:#b}) = {:?}, expected {:?} ({:?})", got, a, ch),
            )
        });
        out.stage = "unsafe_from_bits";
        let got = out.catch(|| A::unsafe_from_bits(c));
        out.check(got.as_ref().ok() == Some(&a), || {
            (
                format!("{n}/unsafe_from_bits/code-does-not-decode-to-symbol"),
                format!("unsafe_from_bits({c:#b}) = {:?}, expected {:?} ({:?})", got, a, ch),
            )
        });
    }
    out.stage = "try_from_ascii";
    for &b in &s.inputs {
        let got = out.catch(|| A::try_from_ascii(b)).ok().flatten();
        out.check(got == Some(a), || {
            (
                format!("{n}/try_from_ascii/char-does-not-parse-to-symbol"),
                format!("try_from_ascii({:?}) = {:?}, expected {:?}", b as char, got, a),
            )
        });
    }
    // secondary views of the same tables: symbol-level Display and u8::from(symbol)
    out.stage = "Display / u8::from (symbol)";
    if let Ok(Some(d)) = out.catch(|| a.display1()) {
        out.check(d == ch.to_string(), || (format!("{n}/Display/differs-from-to_char"), format!("symbol {:?} formats as {:?}, its display character is {:?}", a, d, ch)));
        let w = out.catch(|| format!("{:>3}|{:<2}|", a.display1().unwrap(), a.display1().unwrap()));
        out.check(w.is_ok(), || (format!("{n}/Display/panics"), format!("{:?}", w)));
    }
    if let Ok(Some(b)) = out.catch(|| a.into_u8()) {
        out.check(b == code, || (format!("{n}/u8-from-symbol/differs-from-to_bits"), format!("u8::from({:?}) = {b:#b}, to_bits() = {code:#b}", a)));
    }
    if A::HAS_COMP {
        out.stage = "comp";
        match out.catch(|| a.comp1()) {
            Ok(Some(c)) => {
                if let Some(want) = s.comp {
                    out.check(c.to_char() == want as char, || {
                        (
                            format!("{n}/comp/wrong-complement"),
                            format!("complement of {:?} is {:?}, documented {:?}", ch, c.to_char(), want as char),
                        )
                    });
                }
                let back = out.catch(|| c.comp1()).ok().flatten();
                out.check(back == Some(a), || {
                    (
                        format!("{n}/comp/not-involutive"),
                        format!("complement twice of {:?} gives {:?}", ch, back.map(|x| x.to_char())),
                    )
                });
            }
            Ok(None) => {}
            Err(m) => {
                out.checks += 1;
                out.violation(format!("{n}/comp/panics"), format!("complement of {:?} panicked: {m}", ch))
            }
        }
    }
    out.observe(&(A::CID, i, code, ch));
    out.dim("symbol", i as i64);
}

fn main() {
    main_loop("C05", gen, run, |_| {
        json!({
            "exhaustive": true,
            "space": "7 codecs x 256 byte values x {try_from_ascii, unsafe_from_ascii, try_from_bits, unsafe_from_bits} + every symbol x {to_bits, to_char, decode(code), decode(alts), parse(char), comp, comp.comp} + per-codec alphabet laws",
            "oracle": "hand-typed spec tables (bsv/src/spec.rs), cross-checked by spec::self_test",
        })
    });
}
