//! C20 — soft-masking changes case only and commutes with complement.

use bsv::fixture::*;
use bsv::spec::{self, Spec};
use bsv::*;
use serde::{Deserialize, Serialize};
use serde_json::json;
use std::borrow::ToOwned;

#[derive(Serialize, Deserialize, Hash, Clone, Debug)]
enum Case {
    /// symbol-level laws for the i-th symbol of a masked codec
    Sym { cid: Cid, i: usize },
    /// sequences of length n at slice offset s (owned fresh, owned copied from that offset)
    Shaped { cid: Cid, n: usize, s: usize },
    /// a long sequence (4..16 words): two patterns
    Long { cid: Cid, n: usize, s: usize },
    /// every sequence of length n starting with symbol `first`
    All { cid: Cid, n: usize, first: u8 },
    /// user-defined maskable codecs of the built-in widths, then the built-in codecs, then both again
    Foreign { n: usize },
}

const MASKED: [Cid; 2] = [Cid::MDna, Cid::MIupac];

/// Two user-style maskable codecs of the same widths as the built-in ones, whose masking works differently
/// (4-bit: mask sets bit 3, unmask clears it - idempotent, not a toggle; 5-bit: mask adds 4 to codes 1..=3).
/// Anything the library caches per width rather than per codec shows when they and the built-in codecs are
/// used in one process, in either order.
#[allow(non_camel_case_types)]
#[derive(Clone, Copy, Debug, PartialEq, Eq, Hash, bio_seq::codec::Codec)]
#[bits(4)]
#[repr(u8)]
enum Mk4 {
    W = 0b0000,
    X = 0b0001,
    Y = 0b0010,
    Z = 0b0011,
    w = 0b1000,
    x = 0b1001,
    y = 0b1010,
    z = 0b1011,
}

impl bio_seq::MaskableMut for Mk4 {
    fn mask(&mut self) {
        *self = Mk4::unsafe_from_bits(self.to_bits() | 0b1000);
    }
    fn unmask(&mut self) {
        *self = Mk4::unsafe_from_bits(self.to_bits() & 0b0111);
    }
}

#[allow(non_camel_case_types)]
#[derive(Clone, Copy, Debug, PartialEq, Eq, Hash, bio_seq::codec::Codec)]
#[bits(5)]
#[repr(u8)]
enum Mk5 {
    P = 1,
    Q = 2,
    R = 3,
    p = 5,
    q = 6,
    r = 7,
    #[display('-')]
    Gap = 16,
}

impl bio_seq::MaskableMut for Mk5 {
    fn mask(&mut self) {
        let b = self.to_bits();
        if (1..=3).contains(&b) {
            *self = Mk5::unsafe_from_bits(b + 4);
        }
    }
    fn unmask(&mut self) {
        let b = self.to_bits();
        if (5..=7).contains(&b) {
            *self = Mk5::unsafe_from_bits(b - 4);
        }
    }
}

/// sequence-level masking of a user-defined maskable codec against its own symbol-level masking, position-wise
fn foreign_one<A: Codec + bio_seq::MaskableMut + PartialEq + std::fmt::Debug>(name: &str, n: usize, salt: usize, out: &mut Out)
where
    Seq<A>: bio_seq::MaskableMut + bio_seq::Maskable + ToOwned<Owned = Seq<A>>,
{
    use bio_seq::{Maskable, MaskableMut};
    let al: Vec<A> = A::items().collect();
    let content: Vec<A> = (0..n).map(|i| al[(i * 7 + i / 3 + salt) % al.len()]).collect();
    let seq: Seq<A> = content.iter().copied().collect();
    out.units += 1;
    for unmask in [false, true] {
        let opn = if unmask { "unmask" } else { "mask" };
        let want: Vec<A> = content
            .iter()
            .map(|a| {
                let mut x = *a;
                if unmask {
                    x.unmask()
                } else {
                    x.mask()
                }
                x
            })
            .collect();
        out.stage = "user-defined maskable codec: to_mask/to_unmask";
        let got = out.catch(|| if unmask { seq.to_unmask() } else { seq.to_mask() });
        let ok = matches!(&got, Ok(g) if g.iter().collect::<Vec<A>>() == want);
        out.check(ok, || {
            (
                format!("custom::{name}/seq.to_{opn}/not-position-wise"),
                format!("to_{opn} of {} = {:?}, the symbols' own {opn} gives {:?}", seq, got.as_ref().map(|g| g.to_string()), want.iter().map(|a| a.to_char()).collect::<String>()),
            )
        });
        out.stage = "user-defined maskable codec: in-place mask/unmask";
        let got = out.catch(|| {
            let mut c = seq.clone();
            if unmask {
                c.unmask()
            } else {
                c.mask()
            }
            c
        });
        let ok = matches!(&got, Ok(g) if g.iter().collect::<Vec<A>>() == want && g.len() == n);
        out.check(ok, || {
            (
                format!("custom::{name}/clone.{opn}/not-position-wise"),
                format!("{opn} in place of {} = {:?}, the symbols' own {opn} gives {:?}", seq, got.as_ref().map(|g| g.to_string()), want.iter().map(|a| a.to_char()).collect::<String>()),
            )
        });
    }
}

fn gen(t: Tier, _seed: u64, emit: &mut dyn FnMut(Case)) {
    for n in 0..=40 {
        emit(Case::Foreign { n });
    }
    for cid in MASKED {
        let m = spec::spec(cid).syms.len();
        for i in 0..m + 1 {
            emit(Case::Sym { cid, i });
        }
        emit(Case::All { cid, n: 0, first: 0 });
        let mut n = 1;
        while (m as f64).powi(n) <= t.pick(4.0e4, 1.2e6) {
            for first in 0..m as u8 {
                emit(Case::All { cid, n: n as usize, first });
            }
            n += 1;
        }
        let spw = 64 / cid.bits();
        let maxn = t.pick(2 * spw + 2, 4 * spw + 2);
        for n in 0..=maxn {
            for s in 0..noff(cid.bits()) {
                emit(Case::Shaped { cid, n, s });
            }
        }
        for n in long_lengths(cid.bits()) {
            for s in [0usize, 1, noff(cid.bits()) - 1] {
                emit(Case::Long { cid, n, s });
            }
        }
        for n in huge_lengths(cid.bits()) {
            for s in [0usize, 1] {
                emit(Case::Long { cid, n, s });
            }
        }
    }
}

fn run(c: &Case, out: &mut Out) {
    match c {
        Case::Foreign { n } => {
            for round in 0..2 {
                foreign_one::<Mk4>("Mk4", *n, round, out);
                foreign_one::<Mk5>("Mk5", *n, round, out);
                let m = alphabet::<MDna>().len();
                seq_one::<MDna>(&spec::spec(Cid::MDna), &syms::<MDna>(&bg(*n, m, 77 + round as u64, out.seed)), round, out);
                let m = alphabet::<MIupac>().len();
                seq_one::<MIupac>(&spec::spec(Cid::MIupac), &syms::<MIupac>(&bg(*n, m, 78 + round as u64, out.seed)), round, out);
            }
            out.observe(&("foreign", *n));
        }
        Case::Sym { cid, .. } | Case::Shaped { cid, .. } | Case::All { cid, .. } | Case::Long { cid, .. } => match cid {
            Cid::MDna => run_g::<MDna>(c, out),
            Cid::MIupac => run_g::<MIupac>(c, out),
            _ => out.violation("MACHINERY/not-masked", format!("{cid:?}")),
        },
    }
}

/// Oracle (spec tables): the display character a symbol must have after mask / unmask.
fn want_mask(sp: &Spec, ch: u8, unmask: bool) -> Option<u8> {
    match sp.cid {
        Cid::MIupac => {
            // mask -> lower-case form, unmask -> upper-case form; gap '-' <-> '.'
            let upper = match ch {
                b'.' => b'-',
                c => c.to_ascii_uppercase(),
            };
            Some(if unmask {
                upper
            } else if upper == b'-' {
                b'.'
            } else {
                upper.to_ascii_lowercase()
            })
        }
        Cid::MDna => match ch {
            // both operations toggle the case of A, C, G, T, N; gap and pad stay; '?' and '!' are unspecified
            b'A' | b'C' | b'G' | b'T' | b'N' => Some(ch.to_ascii_lowercase()),
            b'a' | b'c' | b'g' | b't' | b'n' => Some(ch.to_ascii_uppercase()),
            b'-' | b'.' => Some(ch),
            _ => None,
        },
        _ => None,
    }
}

fn sym_case<A: Sx>(i: usize, out: &mut Out) {
    let sp = spec::spec(A::CID);
    let cn = A::CID.name();
    let al = alphabet::<A>();
    let Some(&a) = al.get(i) else { return };
    let ch = a.to_char() as u8;
    let Some(si) = sp.by_char(ch) else {
        out.violation(format!("{cn}/to_char/undocumented-char"), format!("{:?}", ch as char));
        return;
    };
    for unmask in [false, true] {
        let opn = if unmask { "unmask" } else { "mask" };
        out.stage = if unmask { "unmask(symbol)" } else { "mask(symbol)" };
        let f = |x: A| if unmask { x.unmask1() } else { x.mask1() };
        let got = match out.catch(|| f(a)) {
            Ok(Some(g)) => g,
            Ok(None) => return,
            Err(m) => {
                out.checks += 1;
                out.violation(format!("{cn}/{opn}/panics"), format!("{opn} of {:?} panicked: {m}", ch as char));
                continue;
            }
        };
        if let Some(w) = want_mask(&sp, ch, unmask) {
            out.check(got.to_char() as u8 == w, || {
                (format!("{cn}/{opn}/wrong-symbol"), format!("{opn}({:?}) = {:?}, want {:?}", ch as char, got.to_char(), w as char))
            });
            // the nucleotide set never changes
            let gs = sp.by_char(got.to_char() as u8).map(|j| sp.syms[j].set);
            out.check(gs == Some(sp.syms[si].set), || {
                (format!("{cn}/{opn}/changes-nucleotide-set"), format!("{opn}({:?}) = {:?} has a different nucleotide set", ch as char, got.to_char()))
            });
        }
        let twice = out.catch(|| f(got)).ok().flatten();
        match A::CID {
            Cid::MIupac => {
                out.check(twice == Some(got), || {
                    (format!("{cn}/{opn}/not-idempotent"), format!("{opn} twice of {:?} = {:?}, once = {:?}", ch as char, twice.map(|x| x.to_char()), got.to_char()))
                });
            }
            _ => {
                if want_mask(&sp, ch, unmask).is_some() {
                    out.check(twice == Some(a), || {
                        (format!("{cn}/{opn}/not-an-involution"), format!("{opn} twice of {:?} = {:?}", ch as char, twice.map(|x| x.to_char())))
                    });
                }
            }
        }
        if A::CID == Cid::MIupac {
            // commutes with complement
            let l = out.catch(|| f(a.comp1().unwrap())).ok().flatten();
            let r = out.catch(|| got.comp1()).ok().flatten();
            out.check(l.is_some() && l == r, || {
                (
                    format!("{cn}/{opn}/does-not-commute-with-complement"),
                    format!("{opn}(comp {:?}) = {:?} but comp({opn} {:?}) = {:?}", ch as char, l.map(|x| x.to_char()), ch as char, r.map(|x| x.to_char())),
                )
            });
        }
    }
    if A::CID == Cid::MIupac {
        out.stage = "unmask(mask(symbol))";
        let l = out.catch(|| a.mask1().and_then(|x| x.unmask1())).ok().flatten();
        let r = out.catch(|| a.unmask1()).ok().flatten();
        out.check(l.is_some() && l == r, || {
            (format!("{cn}/unmask-after-mask/not-unmask"), format!("unmask(mask {:?}) = {:?}, unmask = {:?}", ch as char, l.map(|x| x.to_char()), r.map(|x| x.to_char())))
        });
    }
    out.observe(&(A::CID, i, a.mask1().map(|x| x.to_bits()), a.unmask1().map(|x| x.to_bits())));
}

fn seq_one<A: Sx>(sp: &Spec, content: &[A], s: usize, out: &mut Out) {
    let cn = A::CID.name();
    out.units += 1;
    let n = content.len();
    out.dim("len", n as i64);
    out.dim("view_bit_offset", ((s * A::BITS as usize) % 64) as i64);
    let by = |ch: u8| -> A { alphabet::<A>().into_iter().find(|a| a.to_char() as u8 == ch).unwrap() };
    let has_unspecified = content.iter().any(|a| want_mask(sp, a.to_char() as u8, false).is_none());
    // position-wise oracle from the spec tables (symbols the property leaves open use the codec's own answer)
    let model = |unmask: bool| -> Vec<A> {
        content
            .iter()
            .map(|a| match want_mask(sp, a.to_char() as u8, unmask) {
                Some(w) => by(w),
                None => (if unmask { a.unmask1() } else { a.mask1() }).unwrap(),
            })
            .collect()
    };
    let pl = place(content, s, 0);
    let fresh = build(content);
    let copied: Seq<A> = owned_headed(content, s);
    if let Some(h) = head_of(&copied) {
        out.dim("owned_head_bit", h as i64);
    }
    for unmask in [false, true] {
        let opn = if unmask { "unmask" } else { "mask" };
        let want = model(unmask);
        macro_rules! expect {
            ($stage:expr, $what:expr, $r:expr, $want:expr) => {{
                out.stage = $stage;
                let r = out.catch(|| $r);
                let ok = matches!(&r, Ok(x) if matches(x, $want));
                out.check(ok, || {
                    (
                        format!("{cn}/{}/wrong-result", $what),
                        format!("{} of {} (offset {s}) = {:?}, want {}", $what, show_cut(content), r.as_ref().map(|x| render(x)), show_cut($want)),
                    )
                });
                r.ok()
            }};
        }
        let f_to = |x: &Seq<A>| if unmask { A::seq_to_unmask(x).unwrap() } else { A::seq_to_mask(x).unwrap() };
        let f_in = |x: &mut Seq<A>| {
            if unmask {
                A::seq_unmask(x)
            } else {
                A::seq_mask(x)
            }
        };
        let m1 = expect!("to_mask/to_unmask(&Seq)", format!("seq.to_{opn}"), f_to(&fresh), &want);
        expect!("to_mask/to_unmask(&copied Seq)", format!("copied-seq.to_{opn}"), f_to(&copied), &want);
        expect!("mask/unmask(&mut clone)", format!("clone.{opn}"), { let mut c = fresh.clone(); f_in(&mut c); c }, &want);
        expect!("mask/unmask(&mut copied clone)", format!("copied-clone.{opn}"), { let mut c = copied.clone(); f_in(&mut c); c }, &want);
        if let Some(m1) = m1 {
            if A::CID == Cid::MIupac {
                expect!("twice", format!("to_{opn}.to_{opn}"), f_to(&m1), &want);
                // commutes with complement, reverse and reverse-complement
                let rev_want: Vec<A> = want.iter().rev().copied().collect();
                let comp_want: Vec<A> = want.iter().map(|a| a.comp1().unwrap()).collect();
                let rc_want: Vec<A> = comp_want.iter().rev().copied().collect();
                expect!("mask∘rev", format!("to_rev.to_{opn}"), f_to(&seq_to_rev(&fresh)), &rev_want);
                expect!("rev∘mask", format!("to_{opn}.to_rev"), seq_to_rev(&m1), &rev_want);
                expect!("mask∘comp", format!("to_comp.to_{opn}"), f_to(&A::seq_to_comp(&fresh).unwrap()), &comp_want);
                expect!("comp∘mask", format!("to_{opn}.to_comp"), A::seq_to_comp(&m1).unwrap(), &comp_want);
                expect!("mask∘revcomp", format!("to_revcomp.to_{opn}"), f_to(&A::seq_to_revcomp(&fresh).unwrap()), &rc_want);
                expect!("revcomp∘mask", format!("to_{opn}.to_revcomp"), A::seq_to_revcomp(&m1).unwrap(), &rc_want);
            } else if !has_unspecified {
                expect!("twice", format!("to_{opn}.to_{opn}"), f_to(&m1), content);
            }
        }
    }
    if A::CID == Cid::MIupac {
        let want = model(true);
        out.stage = "to_mask then to_unmask";
        let r = out.catch(|| A::seq_to_unmask(&A::seq_to_mask(&fresh).unwrap()).unwrap());
        out.check(matches!(&r, Ok(x) if matches(x, &want)), || {
            (format!("{cn}/to_mask.to_unmask/not-unmask"), format!("unmask(mask({})) = {:?}", show_cut(content), r.as_ref().map(|x| render(x))))
        });
    }
    out.stage = "receiver unchanged";
    out.check(matches(&fresh, content) && matches(&copied, content) && matches(pl.view(), content), || {
        (format!("{cn}/receiver/changed-by-copying-form"), format!("receiver {} changed", show_cut(content)))
    });
    out.observe(&(A::CID, n, content.first().map(|a| a.to_bits())));
}

fn run_g<A: Sx>(c: &Case, out: &mut Out) {
    let sp = spec::spec(A::CID);
    let m = alphabet::<A>().len();
    match c {
        Case::Foreign { .. } => unreachable!(),
        Case::Sym { i, .. } => sym_case::<A>(*i, out),
        Case::Long { n, s, .. } => {
            for variant in 0..(if *n > 1100 { 1 } else { 2 }) {
                seq_one::<A>(&sp, &syms::<A>(&bg(*n, m, 310 + variant, out.seed)), *s, out);
            }
        }
        Case::Shaped { n, s, .. } => {
            let seed = out.seed;
            pfamily(*n, m, seed, &mut |idx| seq_one::<A>(&sp, &syms::<A>(idx), *s, out));
        }
        Case::All { n, first, .. } => {
            if *n == 0 {
                seq_one::<A>(&sp, &[], 0, out);
                return;
            }
            let mut idx = vec![*first; *n];
            all_seqs(*n - 1, m, &mut |rest| {
                idx[1..].copy_from_slice(rest);
                let s = rest.iter().map(|&x| x as usize).sum::<usize>() % noff(A::BITS as usize);
                seq_one::<A>(&sp, &syms::<A>(&idx), s, out);
            });
        }
    }
}

fn main() {
    // which maskable codec a process touches first (the driver runs the binary once per order)
    match bsv::run::opt("first").as_deref() {
        Some("custom") => {
            use bio_seq::MaskableMut;
            let mut a: Seq<Mk4> = "WXyz".try_into().unwrap();
            a.mask();
            a.unmask();
            let mut b: Seq<Mk5> = "PQr-".try_into().unwrap();
            b.mask();
            b.unmask();
        }
        Some("builtin") => {
            use bio_seq::MaskableMut;
            let mut a: Seq<MDna> = "ACgt".try_into().unwrap();
            a.mask();
            a.unmask();
            let mut b: Seq<MIupac> = "ACry".try_into().unwrap();
            b.mask();
            b.unmask();
        }
        _ => {}
    }
    main_loop("C20", gen, run, |_| {
        json!({
            "codecs": ["masked::Dna (4-bit)", "masked::Iupac (5-bit)", "two harness-defined maskable codecs of the same widths (used before / after the built-in ones in the same process)"],
            "first_touch": bsv::run::opt("first"),
            "oracle": "spec tables: upper/lower twins, '-' <-> '.' in the 5-bit codec, gap and pad fixed in the 4-bit codec; '?' and '!' of the 4-bit codec are left open by the property and only required not to panic",
            "forms": ["symbol mask/unmask", "Seq::to_mask/to_unmask", "in-place mask/unmask on clones (fresh and offset-copied)", "twice", "unmask∘mask", "commutation with to_rev/to_comp/to_revcomp (5-bit)"],
        })
    });
}
