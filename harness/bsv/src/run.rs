//! Case runner: deterministic enumeration shared by N worker threads (dynamic
//! claiming of case indices), panic isolation, heartbeat watchdog, violation
//! aggregation by signature, coverage accounting, JSON result, replay.

use serde::de::DeserializeOwned;
use serde::Serialize;
use serde_json::{json, Value};
use std::collections::{BTreeMap, BTreeSet, HashSet};
use std::hash::{Hash, Hasher};
use std::panic::{catch_unwind, AssertUnwindSafe};
use std::path::PathBuf;
use std::sync::atomic::{AtomicBool, AtomicU64, Ordering};
use std::sync::Arc;
use std::time::Instant;

#[derive(Clone, Copy, PartialEq, Eq, Debug)]
pub enum Tier {
    Quick,
    Thorough,
}

impl Tier {
    pub fn name(self) -> &'static str {
        match self {
            Tier::Quick => "quick",
            Tier::Thorough => "thorough",
        }
    }
    pub fn pick<T>(self, q: T, t: T) -> T {
        match self {
            Tier::Quick => q,
            Tier::Thorough => t,
        }
    }
    pub fn thorough(self) -> bool {
        self == Tier::Thorough
    }
}

pub fn profile_name() -> &'static str {
    if cfg!(debug_assertions) {
        "relassert"
    } else {
        "release"
    }
}

const MAX_EXAMPLES: usize = 3;

#[derive(Clone)]
struct Example {
    idx: u64,
    detail: String,
    case: Value,
}

#[derive(Default, Clone)]
struct Agg {
    count: u64,
    examples: Vec<Example>,
}

/// Per-thread accumulator handed to the case executor.
pub struct Out {
    pub tier: Tier,
    pub seed: u64,
    tid: usize,
    cases: u64,
    /// comparisons of an observation of the real code with the model
    pub checks: u64,
    /// inputs executed inside coarse cases (one case may run many inputs)
    pub units: u64,
    /// explicit-state explorer: distinct states visited (E1)
    pub states: u64,
    /// explicit-state explorer: transitions executed (E1)
    pub edges: u64,
    case_hashes: HashSet<u64>,
    outcomes: HashSet<u64>,
    dims: BTreeMap<&'static str, BTreeSet<i64>>,
    counters: BTreeMap<String, u64>,
    flags: BTreeMap<String, bool>,
    viol: BTreeMap<String, Agg>,
    pending: Vec<(String, String)>,
    samples: Vec<(u64, Value)>,
    /// a few explored traces written out (operation histories of the explicit-state explorer)
    pub trace_samples: Vec<String>,
    pub stage: &'static str,
    beat: Arc<Beats>,
    tickc: u32,
}

struct Beats {
    start: Instant,
    last: Vec<AtomicU64>,
    idx: Vec<AtomicU64>,
    done: AtomicBool,
}

impl Out {
    fn new(tier: Tier, seed: u64, tid: usize, beat: Arc<Beats>) -> Self {
        Out {
            tier,
            seed,
            tid,
            cases: 0,
            checks: 0,
            units: 0,
            states: 0,
            edges: 0,
            case_hashes: HashSet::new(),
            outcomes: HashSet::new(),
            dims: BTreeMap::new(),
            counters: BTreeMap::new(),
            flags: BTreeMap::new(),
            viol: BTreeMap::new(),
            pending: Vec::new(),
            samples: Vec::new(),
            trace_samples: Vec::new(),
            stage: "",
            beat,
            tickc: 0,
        }
    }

    #[inline]
    pub fn tick(&mut self) {
        self.tickc = self.tickc.wrapping_add(1);
        if self.tickc & 0x3ff == 0 {
            let ms = self.beat.start.elapsed().as_millis() as u64;
            self.beat.last[self.tid].store(ms.max(1), Ordering::Relaxed);
        }
    }

    /// One comparison of the implementation with the model.  `f` builds
    /// (signature, detail) only on failure.  The signature names the call site
    /// and the class of wrong answer; it is what known findings are matched on.
    #[inline]
    pub fn check(&mut self, ok: bool, f: impl FnOnce() -> (String, String)) -> bool {
        self.checks += 1;
        self.tick();
        if !ok {
            let (sig, detail) = f();
            self.pending.push((sig, detail));
        }
        ok
    }

    pub fn violation(&mut self, sig: impl Into<String>, detail: impl Into<String>) {
        self.pending.push((sig.into(), detail.into()));
    }

    /// Note an observation for the "distinct outcomes" vacuity guard.
    #[inline]
    pub fn observe<H: Hash>(&mut self, h: &H) {
        let mut s = std::collections::hash_map::DefaultHasher::new();
        h.hash(&mut s);
        self.outcomes.insert(s.finish());
    }

    #[inline]
    pub fn dim(&mut self, name: &'static str, v: i64) {
        self.dims.entry(name).or_default().insert(v);
    }

    pub fn count(&mut self, name: &str, n: u64) {
        *self.counters.entry(name.to_string()).or_insert(0) += n;
    }

    /// AND-aggregated flag (e.g. "fixpoint reached in every exploration").
    pub fn flag(&mut self, name: &str, v: bool) {
        let e = self.flags.entry(name.to_string()).or_insert(true);
        *e = *e && v;
    }

    /// Run a subject call that may panic; `Err(message)` when it did.
    pub fn catch<T>(&mut self, f: impl FnOnce() -> T) -> Result<T, String> {
        self.tick();
        catch(f)
    }
}

pub fn catch<T>(f: impl FnOnce() -> T) -> Result<T, String> {
    match catch_unwind(AssertUnwindSafe(f)) {
        Ok(v) => Ok(v),
        Err(e) => Err(panic_msg(&e)),
    }
}

fn panic_msg(e: &Box<dyn std::any::Any + Send>) -> String {
    if let Some(s) = e.downcast_ref::<&str>() {
        (*s).to_string()
    } else if let Some(s) = e.downcast_ref::<String>() {
        s.clone()
    } else {
        "<non-string panic>".to_string()
    }
}

struct Args {
    tier: Tier,
    out: Option<PathBuf>,
    replay: Option<PathBuf>,
    threads: usize,
    seed: u64,
    stall_s: u64,
}

fn parse_args() -> Args {
    let mut a = Args {
        tier: Tier::Quick,
        out: None,
        replay: None,
        threads: std::thread::available_parallelism().map(|n| n.get()).unwrap_or(4).min(16),
        seed: std::env::var("VERIF_SEED").ok().and_then(|s| s.parse().ok()).unwrap_or(0),
        stall_s: std::env::var("BSV_STALL_S").ok().and_then(|s| s.parse().ok()).unwrap_or(180),
    };
    let mut it = std::env::args().skip(1);
    while let Some(x) = it.next() {
        match x.as_str() {
            "--tier" => {
                a.tier = match it.next().as_deref() {
                    Some("quick") => Tier::Quick,
                    Some("thorough") => Tier::Thorough,
                    other => die(&format!("bad --tier {other:?}")),
                }
            }
            "--out" => a.out = it.next().map(PathBuf::from),
            "--replay" => a.replay = it.next().map(PathBuf::from),
            "--threads" => a.threads = it.next().and_then(|s| s.parse().ok()).unwrap_or(a.threads),
            "--seed" => a.seed = it.next().and_then(|s| s.parse().ok()).unwrap_or(a.seed),
            "--opt" => {
                it.next();
            }
            other => die(&format!("unknown argument {other}")),
        }
    }
    a
}

/// Value of a `--opt key=value` argument (check-specific switches, e.g. first-touch order in C14).
pub fn opt(key: &str) -> Option<String> {
    let mut it = std::env::args().skip(1);
    while let Some(x) = it.next() {
        if x == "--opt" {
            if let Some(kv) = it.next() {
                if let Some((k, v)) = kv.split_once('=') {
                    if k == key {
                        return Some(v.to_string());
                    }
                }
            }
        }
    }
    None
}

fn die(msg: &str) -> ! {
    eprintln!("bsv: {msg}");
    std::process::exit(2)
}

fn hash_case<C: Hash>(c: &C) -> u64 {
    let mut s = std::collections::hash_map::DefaultHasher::new();
    c.hash(&mut s);
    s.finish()
}

fn is_sample_idx(i: u64) -> bool {
    if i < 3 {
        return true;
    }
    // 10, 100, 1000, ... and 3*10^k : a thin deterministic spread over the enumeration
    let mut p = 10u64;
    while p <= i {
        if i == p || i == 3 * p {
            return true;
        }
        p = p.saturating_mul(10);
    }
    false
}

fn run_case<C: Serialize>(
    idx: u64,
    case: &C,
    out: &mut Out,
    run: &(impl Fn(&C, &mut Out) + Sync),
) {
    out.stage = "";
    out.beat.idx[out.tid].store(idx, Ordering::Relaxed);
    let ms = out.beat.start.elapsed().as_millis() as u64;
    out.beat.last[out.tid].store(ms.max(1), Ordering::Relaxed);
    let r = catch_unwind(AssertUnwindSafe(|| run(case, out)));
    if let Err(e) = r {
        let stage = out.stage;
        out.pending.push((
            format!("{stage}/unexpected-panic"),
            format!("panic escaped the subject during stage '{stage}': {}", panic_msg(&e)),
        ));
    }
    out.beat.last[out.tid].store(0, Ordering::Relaxed);
    out.cases += 1;
    if is_sample_idx(idx) {
        out.samples.push((idx, serde_json::to_value(case).unwrap_or(Value::Null)));
    }
    if !out.pending.is_empty() {
        let cj = serde_json::to_value(case).unwrap_or(Value::Null);
        let pend = std::mem::take(&mut out.pending);
        for (sig, detail) in pend {
            let a = out.viol.entry(sig).or_default();
            a.count += 1;
            if a.examples.len() < MAX_EXAMPLES {
                a.examples.push(Example { idx, detail, case: cj.clone() });
            }
        }
    }
}

/// Entry point of every check binary.
///
/// `gen` must enumerate the same cases in the same order on every call (it is
/// executed once per worker thread; each thread executes only the indices it
/// claims).  `run` executes one case against the real code.
pub fn main_loop<C>(
    property: &str,
    gen: impl Fn(Tier, u64, &mut dyn FnMut(C)) + Sync,
    run: impl Fn(&C, &mut Out) + Sync,
    extra: impl Fn(Tier) -> Value,
) where
    C: Serialize + DeserializeOwned + Hash + Send,
{
    std::panic::set_hook(Box::new(|_| {}));
    let args = parse_args();
    let t0 = Instant::now();

    if let Some(path) = &args.replay {
        let txt = std::fs::read_to_string(path).unwrap_or_else(|e| die(&format!("read {path:?}: {e}")));
        let v: Value = serde_json::from_str(&txt).unwrap_or_else(|e| die(&format!("parse {path:?}: {e}")));
        let cv = v.get("case").cloned().unwrap_or(v.clone());
        let case: C = serde_json::from_value(cv).unwrap_or_else(|e| die(&format!("case in {path:?}: {e}")));
        let tier = match v.get("tier").and_then(Value::as_str) {
            Some("thorough") => Tier::Thorough,
            _ => args.tier,
        };
        let beat = Arc::new(Beats {
            start: t0,
            last: vec![AtomicU64::new(0)],
            idx: vec![AtomicU64::new(0)],
            done: AtomicBool::new(false),
        });
        let mut out = Out::new(tier, args.seed, 0, beat);
        if v.get("replay_mode").and_then(Value::as_str) == Some("history") {
            // a violation that depends on what ran before it in the same process (state kept between calls):
            // the enumeration is re-executed in order, on one thread, up to and including case `upto`
            let upto = v.get("upto").and_then(Value::as_u64).unwrap_or(u64::MAX);
            let mut idx = 0u64;
            gen(tier, args.seed, &mut |case: C| {
                if idx <= upto {
                    run_case(idx, &case, &mut out, &run);
                }
                idx += 1;
            });
        } else {
            run_case(0, &case, &mut out, &run);
        }
        let res = result_json(property, tier, args.seed, &[out], t0, &extra);
        println!("{}", serde_json::to_string_pretty(&res["violations"]).unwrap());
        let n = res["violations"].as_array().map(|a| a.len()).unwrap_or(0);
        std::process::exit(if n > 0 { 1 } else { 0 });
    }

    let nt = args.threads.max(1);
    let beat = Arc::new(Beats {
        start: t0,
        last: (0..nt).map(|_| AtomicU64::new(0)).collect(),
        idx: (0..nt).map(|_| AtomicU64::new(0)).collect(),
        done: AtomicBool::new(false),
    });
    let next = AtomicU64::new(0);
    let tier = args.tier;
    let seed = args.seed;

    // A worker that makes no progress inside the subject for stall_s seconds: report the case it is
    // stuck in as a non-termination violation and leave (the stuck worker cannot be joined).
    let on_stall = |idx: u64, ms: u64| -> ! {
        let mut cj = Value::Null;
        let mut i = 0u64;
        gen(tier, seed, &mut |case: C| {
            if i == idx {
                cj = serde_json::to_value(&case).unwrap_or(Value::Null);
            }
            i += 1;
        });
        let res = json!({
            "property": property, "tier": tier.name(), "profile": profile_name(), "seed": seed,
            "aborted": true, "cases": 0, "checks": 0, "states": 0, "edges": 0,
            "distinct_cases": 0, "distinct_outcomes": 0, "dims": {}, "counters": {}, "flags": {},
            "samples": [cj.clone()],
            "violations": [{
                "sig": "non-termination",
                "count": 1,
                "examples": [{"idx": idx, "detail": format!("no progress for {ms} ms inside the subject"), "case": cj}],
            }],
            "wall_s": t0.elapsed().as_secs_f64(),
            "extra": extra(tier),
        });
        write_out(&args.out, &res);
        std::process::exit(0);
    };

    let stride: u64 = std::env::var("BSV_CASE_STRIDE").ok().and_then(|s| s.parse().ok()).unwrap_or(1);
    let mut outs: Vec<Out> = Vec::new();
    std::thread::scope(|s| {
        let mut hs = Vec::new();
        for tid in 0..nt {
            let beat = beat.clone();
            let next = &next;
            let gen = &gen;
            let run = &run;
            hs.push(s.spawn(move || {
                let mut out = Out::new(tier, seed, tid, beat);
                let mut mine = next.fetch_add(1, Ordering::SeqCst);
                let mut idx: u64 = 0;
                gen(tier, seed, &mut |case: C| {
                    if idx == mine {
                        // BSV_CASE_STRIDE=k executes only every k-th case: used for the (non-deciding)
                        // coverage measurement with instrumented binaries, never by ./check
                        if stride <= 1 || idx % stride == 0 {
                            out.case_hashes.insert(hash_case(&case));
                            run_case(idx, &case, &mut out, run);
                        }
                        mine = next.fetch_add(1, Ordering::SeqCst);
                    }
                    idx += 1;
                });
                out
            }));
        }
        loop {
            if hs.iter().all(|h| h.is_finished()) {
                break;
            }
            std::thread::sleep(std::time::Duration::from_millis(100));
            let now = t0.elapsed().as_millis() as u64;
            for tid in 0..nt {
                let l = beat.last[tid].load(Ordering::Relaxed);
                if l != 0 && now.saturating_sub(l) > args.stall_s * 1000 {
                    on_stall(beat.idx[tid].load(Ordering::Relaxed), now - l);
                }
            }
        }
        for h in hs {
            match h.join() {
                Ok(o) => outs.push(o),
                Err(_) => die("worker thread died outside a case (harness bug)"),
            }
        }
        beat.done.store(true, Ordering::Relaxed);
    });

    let mut res;
    res = result_json(property, tier, seed, &outs, t0, &extra);
    res["total_cases_enumerated"] = json!(next.load(Ordering::SeqCst).saturating_sub(nt as u64));
    write_out(&args.out, &res);
}

fn write_out(path: &Option<PathBuf>, res: &Value) {
    let txt = serde_json::to_string_pretty(res).unwrap();
    match path {
        Some(p) => std::fs::write(p, txt).unwrap_or_else(|e| die(&format!("write {p:?}: {e}"))),
        None => println!("{txt}"),
    }
}

fn result_json(
    property: &str,
    tier: Tier,
    seed: u64,
    outs: &[Out],
    t0: Instant,
    extra: &impl Fn(Tier) -> Value,
) -> Value {
    let mut cases = 0;
    let mut checks = 0;
    let mut states = 0;
    let mut edges = 0;
    let mut units = 0;
    let mut ch: HashSet<u64> = HashSet::new();
    let mut oc: HashSet<u64> = HashSet::new();
    let mut dims: BTreeMap<&'static str, BTreeSet<i64>> = BTreeMap::new();
    let mut counters: BTreeMap<String, u64> = BTreeMap::new();
    let mut flags: BTreeMap<String, bool> = BTreeMap::new();
    let mut viol: BTreeMap<String, Agg> = BTreeMap::new();
    let mut samples: Vec<(u64, Value)> = Vec::new();
    let mut trace_samples: Vec<String> = Vec::new();
    for o in outs {
        for t in &o.trace_samples {
            if trace_samples.len() < 8 {
                trace_samples.push(t.clone());
            }
        }
        cases += o.cases;
        checks += o.checks;
        states += o.states;
        edges += o.edges;
        units += o.units;
        ch.extend(o.case_hashes.iter().copied());
        oc.extend(o.outcomes.iter().copied());
        for (k, v) in &o.dims {
            dims.entry(k).or_default().extend(v.iter().copied());
        }
        for (k, v) in &o.counters {
            *counters.entry(k.clone()).or_insert(0) += v;
        }
        for (k, v) in &o.flags {
            let e = flags.entry(k.clone()).or_insert(true);
            *e = *e && *v;
        }
        for (k, v) in &o.viol {
            let a = viol.entry(k.clone()).or_default();
            a.count += v.count;
            a.examples.extend(v.examples.iter().cloned());
        }
        samples.extend(o.samples.iter().cloned());
    }
    samples.sort_by_key(|s| s.0);
    samples.truncate(12);
    let viols: Vec<Value> = viol
        .into_iter()
        .map(|(sig, mut a)| {
            a.examples.sort_by_key(|e| e.idx);
            a.examples.truncate(MAX_EXAMPLES);
            json!({
                "sig": sig,
                "count": a.count,
                "examples": a.examples.iter().map(|e| json!({"idx": e.idx, "detail": e.detail, "case": e.case})).collect::<Vec<_>>(),
            })
        })
        .collect();
    let dimj: serde_json::Map<String, Value> = dims
        .iter()
        .map(|(k, v)| {
            let vals: Vec<i64> = v.iter().copied().collect();
            let shown: Value = if vals.len() <= 80 { json!(vals) } else { json!(null) };
            (
                k.to_string(),
                json!({"distinct": vals.len(), "min": vals.first(), "max": vals.last(), "values": shown}),
            )
        })
        .collect();
    json!({
        "property": property,
        "tier": tier.name(),
        "profile": profile_name(),
        "seed": seed,
        "aborted": false,
        "cases": cases,
        "distinct_cases": ch.len(),
        "checks": checks,
        "units": units,
        "states": states,
        "edges": edges,
        "distinct_outcomes": oc.len(),
        "dims": dimj,
        "counters": counters,
        "flags": flags,
        "samples": samples.into_iter().map(|s| s.1).collect::<Vec<_>>(),
        "trace_samples": trace_samples,
        "violations": viols,
        "wall_s": t0.elapsed().as_secs_f64(),
        "extra": extra(tier),
    })
}
