//! Hand-typed specification tables (the oracle for C01, C05, C12, C13, C14,
//! C19, C20).  Typed from the documentation (README, module docs, the IUPAC
//! nomenclature, NCBI translation table 1) — not derived from the code under
//! test.  `self_test` cross-checks the tables against each other so that a
//! typo in the oracle cannot pass silently.

use crate::codecs::Cid;

/// Nucleotide set bit mask used by the oracle only: A=1, C=2, G=4, T=8.
pub const SA: u8 = 1;
pub const SC: u8 = 2;
pub const SG: u8 = 4;
pub const ST: u8 = 8;

#[derive(Clone, Debug)]
pub struct Sym {
    /// canonical display character
    pub ch: u8,
    /// every input byte that parses to this symbol (display character first)
    pub inputs: Vec<u8>,
    /// canonical bit code
    pub code: u8,
    /// documented alternative bit codes decoding to this symbol
    pub alts: Vec<u8>,
    /// nucleotide set (oracle mask) for nucleotide codecs
    pub set: Option<u8>,
    /// soft-mask flag (masked codecs)
    pub masked: bool,
    /// display character of the complement, where the documentation defines one
    pub comp: Option<u8>,
}

#[derive(Clone, Debug)]
pub struct Spec {
    pub cid: Cid,
    pub bits: usize,
    pub syms: Vec<Sym>,
}

impl Spec {
    /// symbol index an input byte parses to
    pub fn parse(&self, b: u8) -> Option<usize> {
        self.syms.iter().position(|s| s.inputs.contains(&b))
    }
    /// symbol index a bit pattern decodes to (canonical or documented alternative)
    pub fn decode(&self, code: u8) -> Option<usize> {
        self.syms.iter().position(|s| s.code == code || s.alts.contains(&code))
    }
    pub fn by_char(&self, ch: u8) -> Option<usize> {
        self.syms.iter().position(|s| s.ch == ch)
    }
    pub fn accepted(&self) -> Vec<u8> {
        let mut v: Vec<u8> = self.syms.iter().flat_map(|s| s.inputs.iter().copied()).collect();
        v.sort();
        v.dedup();
        v
    }
}

fn set_of(letters: &str) -> u8 {
    letters.bytes().fold(0, |m, b| {
        m | match b {
            b'A' => SA,
            b'C' => SC,
            b'G' => SG,
            b'T' => ST,
            _ => panic!("bad set letter"),
        }
    })
}

fn comp_set(s: u8) -> u8 {
    let mut r = 0;
    if s & SA != 0 {
        r |= ST;
    }
    if s & ST != 0 {
        r |= SA;
    }
    if s & SC != 0 {
        r |= SG;
    }
    if s & SG != 0 {
        r |= SC;
    }
    r
}

/// IUPAC nomenclature: letter -> members.
const IUPAC_SETS: [(u8, &str); 16] = [
    (b'A', "A"),
    (b'C', "C"),
    (b'G', "G"),
    (b'T', "T"),
    (b'R', "AG"),
    (b'Y', "CT"),
    (b'S', "CG"),
    (b'W', "AT"),
    (b'K', "GT"),
    (b'M', "AC"),
    (b'B', "CGT"),
    (b'D', "AGT"),
    (b'H', "ACT"),
    (b'V', "ACG"),
    (b'N', "ACGT"),
    (b'-', ""),
];

pub fn iupac_letter_of_set(set: u8) -> u8 {
    IUPAC_SETS.iter().find(|(_, m)| set_of(m) == set).map(|(l, _)| *l).unwrap()
}

pub fn iupac_set_of_letter(l: u8) -> Option<u8> {
    IUPAC_SETS.iter().find(|(x, _)| *x == l).map(|(_, m)| set_of(m))
}

/// NCBI translation table 1, codons in TCAG order (first base slowest).
pub const NCBI1: &str = "FFLLSSSSYY**CC*WLLLLPPPPHHQQRRRRIIIMTTTTNNKKSSRRVVVVAAAADDEEGGGG";

/// Amino acid (display char, '*' = stop) of a concrete codon given as base indices A=0,C=1,G=2,T=3.
pub fn ncbi_amino(b0: u8, b1: u8, b2: u8) -> u8 {
    fn t(b: u8) -> usize {
        match b {
            3 => 0, // T
            1 => 1, // C
            0 => 2, // A
            2 => 3, // G
            _ => panic!(),
        }
    }
    NCBI1.as_bytes()[16 * t(b0) + 4 * t(b1) + t(b2)]
}

/// Amino acid of a 6-bit pattern read as three 2-bit bases, first base in the low bits.
pub fn ncbi_amino_of_bits(p: u8) -> u8 {
    ncbi_amino(p & 3, (p >> 2) & 3, (p >> 4) & 3)
}

fn base_idx(b: u8) -> u8 {
    match b {
        b'A' => 0,
        b'C' => 1,
        b'G' => 2,
        b'T' => 3,
        _ => panic!(),
    }
}

/// Documented canonical codon of each amino symbol (module docs of codec::amino).
const AMINO_CANON: [(u8, &str); 21] = [
    (b'A', "GCA"),
    (b'C', "TGC"),
    (b'D', "GAC"),
    (b'E', "GAA"),
    (b'F', "TTC"),
    (b'G', "GGA"),
    (b'H', "CAC"),
    (b'I', "ATA"),
    (b'K', "AAA"),
    (b'L', "CTA"),
    (b'M', "ATG"),
    (b'N', "AAC"),
    (b'P', "CCA"),
    (b'Q', "CAA"),
    (b'R', "AGA"),
    (b'S', "AGC"),
    (b'T', "ACA"),
    (b'V', "GTA"),
    (b'W', "TGG"),
    (b'Y', "TAC"),
    (b'*', "TAA"),
];

fn codon_bits(c: &str) -> u8 {
    let b = c.as_bytes();
    base_idx(b[0]) | (base_idx(b[1]) << 2) | (base_idx(b[2]) << 4)
}

pub fn spec(cid: Cid) -> Spec {
    let syms = match cid {
        Cid::Dna => [(b'A', 0u8, b'T'), (b'C', 1, b'G'), (b'G', 2, b'C'), (b'T', 3, b'A')]
            .iter()
            .map(|&(ch, code, comp)| Sym {
                ch,
                inputs: vec![ch],
                code,
                alts: vec![],
                set: Some(set_of(std::str::from_utf8(&[ch]).unwrap())),
                masked: false,
                comp: Some(comp),
            })
            .collect(),
        Cid::Iupac => {
            // documented bit table: columns A C G T, most significant first
            let codes: [(u8, u8); 16] = [
                (b'A', 0b1000),
                (b'C', 0b0100),
                (b'G', 0b0010),
                (b'T', 0b0001),
                (b'R', 0b1010),
                (b'Y', 0b0101),
                (b'S', 0b0110),
                (b'W', 0b1001),
                (b'K', 0b0011),
                (b'M', 0b1100),
                (b'B', 0b0111),
                (b'D', 0b1011),
                (b'H', 0b1101),
                (b'V', 0b1110),
                (b'N', 0b1111),
                (b'-', 0b0000),
            ];
            codes
                .iter()
                .map(|&(ch, code)| {
                    let set = iupac_set_of_letter(ch).unwrap();
                    Sym {
                        ch,
                        inputs: vec![ch],
                        code,
                        alts: vec![],
                        set: Some(set),
                        masked: false,
                        comp: Some(iupac_letter_of_set(comp_set(set))),
                    }
                })
                .collect()
        }
        Cid::Amino => AMINO_CANON
            .iter()
            .map(|&(ch, codon)| {
                let code = codon_bits(codon);
                let alts = (0u8..64).filter(|&p| p != code && ncbi_amino_of_bits(p) == ch).collect();
                Sym { ch, inputs: vec![ch], code, alts, set: None, masked: false, comp: None }
            })
            .collect(),
        Cid::Text => b"ACGTN"
            .iter()
            .map(|&ch| Sym {
                ch,
                inputs: vec![ch],
                code: ch,
                alts: vec![],
                set: iupac_set_of_letter(ch),
                masked: false,
                comp: None,
            })
            .collect(),
        Cid::MDna => {
            // (display, code, alts, base letter or 0, masked, complement display)
            let t: [(u8, u8, &[u8], bool, Option<u8>); 14] = [
                (b'A', 0b1000, &[], false, Some(b'T')),
                (b'C', 0b0100, &[], false, Some(b'G')),
                (b'G', 0b0010, &[], false, Some(b'C')),
                (b'T', 0b0001, &[], false, Some(b'A')),
                (b'a', 0b0111, &[], true, Some(b't')),
                (b'c', 0b1011, &[], true, Some(b'g')),
                (b'g', 0b1101, &[], true, Some(b'c')),
                (b't', 0b1110, &[], true, Some(b'a')),
                (b'N', 0b0000, &[], false, Some(b'N')),
                (b'n', 0b1111, &[], true, Some(b'n')),
                (b'-', 0b1100, &[0b0011], false, Some(b'-')),
                (b'.', 0b1010, &[0b0101], false, Some(b'.')),
                (b'?', 0b0110, &[], false, None),
                (b'!', 0b1001, &[], false, None),
            ];
            t.iter()
                .map(|&(ch, code, alts, masked, comp)| Sym {
                    ch,
                    inputs: vec![ch],
                    code,
                    alts: alts.to_vec(),
                    set: iupac_set_of_letter(ch.to_ascii_uppercase()).filter(|_| ch.is_ascii_alphabetic()),
                    masked,
                    comp,
                })
                .collect()
        }
        Cid::MIupac => {
            // documented layout: bit4 = A, bit3 = C, bit2 = mask flag, bit1 = G, bit0 = T
            let upper: [(u8, u8); 16] = [
                (b'A', 0b10000),
                (b'C', 0b01000),
                (b'G', 0b00010),
                (b'T', 0b00001),
                (b'Y', 0b01001),
                (b'R', 0b10010),
                (b'W', 0b10001),
                (b'S', 0b01010),
                (b'K', 0b00011),
                (b'M', 0b11000),
                (b'D', 0b10011),
                (b'V', 0b11010),
                (b'H', 0b11001),
                (b'B', 0b01011),
                (b'N', 0b11011),
                (b'-', 0b00000),
            ];
            let mut v: Vec<Sym> = Vec::new();
            for masked in [false, true] {
                for &(l, code) in upper.iter() {
                    let set = iupac_set_of_letter(l).unwrap();
                    let disp = |x: u8| -> u8 {
                        if !masked {
                            x
                        } else if x == b'-' {
                            b'.'
                        } else {
                            x.to_ascii_lowercase()
                        }
                    };
                    v.push(Sym {
                        ch: disp(l),
                        inputs: vec![disp(l)],
                        code: code | if masked { 0b00100 } else { 0 },
                        alts: vec![],
                        set: Some(set),
                        masked,
                        comp: Some(disp(iupac_letter_of_set(comp_set(set)))),
                    });
                }
            }
            v
        }
        Cid::X2 => [(b'A', 0u8, b'T'), (b'T', 1, b'A'), (b'C', 2, b'G'), (b'G', 3, b'C')]
            .iter()
            .map(|&(ch, code, comp)| Sym { ch, inputs: vec![ch], code, alts: vec![], set: None, masked: false, comp: Some(comp) })
            .collect(),
        Cid::X3 => [(b'P', 0u8, vec![7u8], b's'), (b'Q', 1, vec![], b'T'), (b'R', 2, vec![5], b'R'), (b's', 4, vec![], b'P'), (b'T', 3, vec![], b'Q')]
            .iter()
            .map(|(ch, code, alts, comp)| Sym { ch: *ch, inputs: vec![*ch], code: *code, alts: alts.clone(), set: None, masked: false, comp: Some(*comp) })
            .collect(),
        Cid::Degen => vec![
            Sym {
                ch: b'S',
                inputs: vec![b'S', b'C', b'G'],
                code: 1,
                alts: vec![],
                set: Some(SC | SG),
                masked: false,
                comp: Some(b'S'),
            },
            Sym {
                ch: b'W',
                inputs: vec![b'W', b'A', b'T'],
                code: 0,
                alts: vec![],
                set: Some(SA | ST),
                masked: false,
                comp: Some(b'W'),
            },
        ],
    };
    Spec { cid, bits: cid.bits(), syms }
}

/// Cross-checks between the hand-typed tables.  Returns a list of problems
/// (empty when the oracle is self-consistent).
pub fn self_test() -> Vec<String> {
    let mut errs = Vec::new();
    for cid in Cid::WITH_CUSTOM {
        let sp = spec(cid);
        let mut seen_code = std::collections::HashMap::new();
        let mut seen_in = std::collections::HashMap::new();
        for (i, s) in sp.syms.iter().enumerate() {
            if sp.bits < 8 && (s.code as usize) >= (1 << sp.bits) {
                errs.push(format!("{:?}: code of {} does not fit", cid, s.ch as char));
            }
            for c in std::iter::once(&s.code).chain(s.alts.iter()) {
                if let Some(j) = seen_code.insert(*c, i) {
                    errs.push(format!("{:?}: code {c:#b} used by symbols {j} and {i}", cid));
                }
            }
            for b in &s.inputs {
                if let Some(j) = seen_in.insert(*b, i) {
                    errs.push(format!("{:?}: input {} used by symbols {j} and {i}", cid, *b as char));
                }
            }
            if s.inputs.first() != Some(&s.ch) {
                errs.push(format!("{:?}: display char must be the first input", cid));
            }
            if let Some(c) = s.comp {
                match sp.by_char(c) {
                    None => errs.push(format!("{:?}: complement {} not a symbol", cid, c as char)),
                    Some(j) => {
                        if sp.syms[j].comp != Some(s.ch) {
                            errs.push(format!("{:?}: complement not an involution at {}", cid, s.ch as char));
                        }
                        if let (Some(a), Some(b)) = (s.set, sp.syms[j].set) {
                            if comp_set(a) != b {
                                errs.push(format!("{:?}: complement of {} is not member-wise", cid, s.ch as char));
                            }
                        }
                        if sp.syms[j].masked != s.masked {
                            errs.push(format!("{:?}: complement changes case at {}", cid, s.ch as char));
                        }
                    }
                }
            }
        }
        match cid {
            Cid::Iupac => {
                for s in &sp.syms {
                    // code bits A=8 C=4 G=2 T=1 must be the set
                    let set = s.set.unwrap();
                    let want = (if set & SA != 0 { 8 } else { 0 })
                        | (if set & SC != 0 { 4 } else { 0 })
                        | (if set & SG != 0 { 2 } else { 0 })
                        | (if set & ST != 0 { 1 } else { 0 });
                    if want != s.code {
                        errs.push(format!("Iupac: code of {} is not its set", s.ch as char));
                    }
                }
            }
            Cid::MIupac => {
                for s in &sp.syms {
                    let set = s.set.unwrap();
                    let want = (if set & SA != 0 { 16 } else { 0 })
                        | (if set & SC != 0 { 8 } else { 0 })
                        | (if set & SG != 0 { 2 } else { 0 })
                        | (if set & ST != 0 { 1 } else { 0 })
                        | (if s.masked { 4 } else { 0 });
                    if want != s.code {
                        errs.push(format!("masked Iupac: code of {} is not set+mask", s.ch as char));
                    }
                }
                if sp.syms.len() != 32 {
                    errs.push("masked Iupac: 32 symbols expected".into());
                }
            }
            Cid::Amino => {
                let mut n = 0;
                for s in &sp.syms {
                    n += 1 + s.alts.len();
                    if ncbi_amino_of_bits(s.code) != s.ch {
                        errs.push(format!("Amino: canonical codon of {} does not code for it", s.ch as char));
                    }
                }
                if n != 64 {
                    errs.push(format!("Amino: {n} of 64 patterns covered"));
                }
                // spot values from the genetic code everyone knows
                if ncbi_amino(0, 3, 2) != b'M' || ncbi_amino(3, 2, 2) != b'W' || ncbi_amino(3, 0, 0) != b'*' {
                    errs.push("NCBI string indexing wrong".into());
                }
            }
            Cid::MDna => {
                for s in &sp.syms {
                    if s.ch.is_ascii_alphabetic() && s.masked != s.ch.is_ascii_lowercase() {
                        errs.push("masked Dna: case/mask mismatch".into());
                    }
                }
            }
            _ => {}
        }
    }
    errs
}
