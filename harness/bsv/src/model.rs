//! The reference model: a sequence is a list of symbol codes; packing is
//! sum(code_i * 2^(i*BITS)); order is colexicographic.

use std::cmp::Ordering;

/// Little-endian packing into 64-bit words: symbol i occupies bits
/// [i*bits, (i+1)*bits) counted from bit 0 of word 0.
pub fn pack_words(codes: &[u8], bits: usize) -> Vec<u64> {
    let total = codes.len() * bits;
    let mut w = vec![0u64; (total + 63) / 64];
    for (i, &c) in codes.iter().enumerate() {
        for b in 0..bits {
            if (c >> b) & 1 == 1 {
                let p = i * bits + b;
                w[p / 64] |= 1u64 << (p % 64);
            }
        }
    }
    w
}

/// sum(code_i * 2^(i*bits)) for a list that fits in 128 bits.
pub fn pack_u128(codes: &[u8], bits: usize) -> u128 {
    assert!(codes.len() * bits <= 128);
    let mut x: u128 = 0;
    for (i, &c) in codes.iter().enumerate() {
        x |= (c as u128 & ((1u128 << bits) - 1)) << (i * bits);
    }
    x
}

/// Inverse of `pack_u128` for `k` symbols.
pub fn unpack_u128(x: u128, k: usize, bits: usize) -> Vec<u8> {
    (0..k).map(|i| ((x >> (i * bits)) & ((1u128 << bits) - 1)) as u8).collect()
}

/// Bits [start, start+n) of a word image, n <= 64.
pub fn bits_at(words: &[usize], start: usize, n: usize) -> Option<u64> {
    let mut x = 0u64;
    for b in 0..n {
        let p = start + b;
        let w = *words.get(p / 64)?;
        if (w >> (p % 64)) & 1 == 1 {
            x |= 1 << b;
        }
    }
    Some(x)
}

/// Colexicographic comparison of equal-length code lists: last symbol most significant.
pub fn colex(a: &[u8], b: &[u8]) -> Ordering {
    debug_assert_eq!(a.len(), b.len());
    for i in (0..a.len().min(b.len())).rev() {
        match a[i].cmp(&b[i]) {
            Ordering::Equal => {}
            o => return o,
        }
    }
    a.len().cmp(&b.len())
}

pub fn rotl<T: Clone>(v: &[T], n: usize) -> Vec<T> {
    if v.is_empty() {
        return vec![];
    }
    let n = n % v.len();
    let mut r = v[n..].to_vec();
    r.extend_from_slice(&v[..n]);
    r
}

pub fn rotr<T: Clone>(v: &[T], n: usize) -> Vec<T> {
    if v.is_empty() {
        return vec![];
    }
    let n = n % v.len();
    rotl(v, v.len() - n)
}
