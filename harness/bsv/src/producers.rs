//! Producers: every way an owned sequence can come into being (C04's word
//! image and C18's serialization quantify over "however it was produced").
//! Each producer returns the real value together with the model: the list of
//! symbol *codes* it must hold (codes rather than symbols because the bitwise
//! operators are codec-generic and may produce codes that are not symbols).

use crate::codecs::*;
use crate::fixture::*;
use bio_seq::kmer::Kmer;
use std::borrow::ToOwned;

pub struct Produced<A: Codec> {
    pub name: String,
    pub seq: Seq<A>,
    pub codes: Vec<u8>,
    /// every code is a symbol of the codec (so symbols can be read back safely)
    pub symbolic: bool,
}

fn p<A: Codec>(name: impl Into<String>, seq: Seq<A>, model: &[A]) -> Produced<A> {
    Produced { name: name.into(), seq, codes: codes(model), symbolic: true }
}

/// Owned sequences with content derived from `content` (and `other`, same length) by every producer.
/// `offsets`: slice offsets to copy from.
pub fn producers<A: Sx>(content: &[A], other: &[A], offsets: &[usize], edits: bool) -> Vec<Produced<A>> {
    assert_eq!(content.len(), other.len());
    let n = content.len();
    let al = alphabet::<A>();
    let mut v: Vec<Produced<A>> = Vec::new();
    let text = show(content);

    v.push(p("parsed(&str)", Seq::<A>::try_from(text.as_str()).expect("valid text"), content));
    v.push(p("collected", content.iter().copied().collect(), content));
    v.push(p("From<&Vec>", Seq::from(&content.to_vec()), content));
    {
        let mut s = Seq::<A>::with_capacity(n + 70);
        s.extend(content.iter().copied());
        v.push(p("with_capacity+extend", s, content));
    }
    let fresh = build(content);
    v.push(p("clone", fresh.clone(), content));
    for &s in offsets {
        let pl = place(content, s, 0);
        v.push(p(format!("to_owned(slice@{s})"), pl.view().to_owned(), content));
        v.push(p(format!("clone(to_owned(slice@{s}))"), pl.view().to_owned().clone(), content));
        let plh = place_headed(content, s, 1, (s + 3) % noff(A::BITS as usize).max(1));
        v.push(p(format!("to_owned(slice@{s} of offset-copied parent)"), plh.view().to_owned(), content));
    }
    // same-codec conversion From<&SeqSlice<A>> for Seq<A> (collects symbol by symbol)
    {
        let pl = place(content, offsets.last().copied().unwrap_or(0), 0);
        let c: Seq<A> = pl.view().into();
        v.push(p("From<&SeqSlice>(same codec)", c, content));
    }
    // ToOwned::clone_into (also what Cow::clone_from uses): into an empty, a longer and a headed target
    for &s in offsets.iter().take(3) {
        let pl = place(content, s, 0);
        let mut t0 = Seq::<A>::new();
        pl.view().clone_into(&mut t0);
        v.push(p(format!("slice@{s}.clone_into(empty)"), t0, content));
        let mut t1 = build(&flanked(other, 2, 1));
        pl.view().clone_into(&mut t1);
        v.push(p(format!("slice@{s}.clone_into(longer)"), t1, content));
        let mut cow: std::borrow::Cow<SeqSlice<A>> = std::borrow::Cow::Owned(build(other));
        cow.clone_from(&std::borrow::Cow::Borrowed(pl.view()));
        v.push(p(format!("Cow::clone_from(borrowed slice@{s}).into_owned()"), cow.into_owned(), content));
    }
    // FromIterator<&SeqSlice> for Vec<Seq>: owned sequences collected out of windows()/chunks() of a parent
    if n >= 1 {
        for &s in offsets.iter().take(3) {
            let pl = place(content, s, 0);
            // windows(n) of the flanked parent: the (s)-th window is the content
            let ws: Vec<Seq<A>> = pl.parent.windows(n).collect();
            if let Some(w) = ws.into_iter().nth(s) {
                v.push(p(format!("windows(n).collect::<Vec<Seq>>()[{s}]"), w, content));
            }
            // chunks(n) of a parent that starts with s junk symbols followed by content: not chunk-aligned unless s % n == 0,
            // so take chunks of the slice that starts at s
            let cs: Vec<Seq<A>> = pl.parent[s..].chunks(n).collect();
            if let Some(c) = cs.into_iter().next() {
                v.push(p(format!("slice@{s}.chunks(n).collect::<Vec<Seq>>()[0]"), c, content));
            }
        }
    }
    // the (unstable) bit-level constructors: From<&BitSlice> at an offset inside model words, From<BitVec>
    {
        use bitvec::prelude::*;
        let bits = A::BITS as usize;
        for &s in offsets.iter().take(3) {
            let fl = flanked(content, s, 0);
            let words: Vec<usize> = crate::model::pack_words(&codes(&fl), bits).iter().map(|w| *w as usize).collect();
            let bs: &BitSlice<usize, Lsb0> = BitSlice::from_slice(&words);
            let window = &bs[s * bits..(s + n) * bits];
            v.push(p(format!("From<&Bs>(bit window @{s})"), Seq::<A>::from(window), content));
            let bv: BitVec<usize, Lsb0> = window.to_bitvec();
            v.push(p(format!("From<Bv>(to_bitvec of window @{s})"), Seq::<A>::from(bv), content));
        }
    }
    // reverse / complement / reverse-complement results
    let rev: Vec<A> = content.iter().rev().copied().collect();
    v.push(p("to_rev(&Seq)", seq_to_rev(&fresh), &rev));
    {
        let s = offsets.get(1).copied().unwrap_or(1);
        let pl = place(content, s, 0);
        v.push(p(format!("to_rev(slice@{s})"), slice_to_rev(pl.view()), &rev));
        let mut c: Seq<A> = pl.view().to_owned();
        seq_rev(&mut c);
        v.push(p(format!("rev(to_owned(slice@{s}))"), c, &rev));
        if A::HAS_COMP {
            let cm: Vec<A> = content.iter().map(|a| a.comp1().unwrap()).collect();
            let rc: Vec<A> = cm.iter().rev().copied().collect();
            v.push(p("to_comp(&Seq)", A::seq_to_comp(&fresh).unwrap(), &cm));
            v.push(p(format!("to_comp(slice@{s})"), A::slice_to_comp(pl.view()).unwrap(), &cm));
            v.push(p("to_revcomp(&Seq)", A::seq_to_revcomp(&fresh).unwrap(), &rc));
            v.push(p(format!("to_revcomp(slice@{s})"), A::slice_to_revcomp(pl.view()).unwrap(), &rc));
        }
        if A::HAS_MASK {
            let mm: Vec<A> = content.iter().map(|a| a.mask1().unwrap()).collect();
            v.push(p("to_mask(&Seq)", A::seq_to_mask(&fresh).unwrap(), &mm));
        }
    }
    // bitwise operators (codec-generic): the model is the code-wise or / and
    {
        let ca = codes(content);
        let cb = codes(other);
        let or: Vec<u8> = ca.iter().zip(&cb).map(|(x, y)| x | y).collect();
        let and: Vec<u8> = ca.iter().zip(&cb).map(|(x, y)| x & y).collect();
        let symbolic = |cs: &[u8]| cs.iter().all(|c| A::try_from_bits(*c).is_some());
        for (i, &(s1, s2)) in [(0usize, 0usize), (offsets.get(1).copied().unwrap_or(1), 0), (offsets.last().copied().unwrap_or(0), offsets.get(1).copied().unwrap_or(1))].iter().enumerate() {
            let pa = place(content, s1, 0);
            let pb = place(other, s2, 1);
            v.push(Produced { name: format!("slice@{s1} | slice@{s2}"), seq: pa.view() | pb.view(), codes: or.clone(), symbolic: symbolic(&or) });
            v.push(Produced { name: format!("slice@{s1} & slice@{s2}"), seq: pa.view() & pb.view(), codes: and.clone(), symbolic: symbolic(&and) });
            if i > 0 {
                v.push(Produced {
                    name: format!("bit_or(to_owned(slice@{s1}), to_owned(slice@{s2}))"),
                    seq: pa.view().to_owned().bit_or(pb.view().to_owned()),
                    codes: or.clone(),
                    symbolic: symbolic(&or),
                });
                v.push(Produced {
                    name: format!("bit_and(to_owned(slice@{s1}), to_owned(slice@{s2}))"),
                    seq: pa.view().to_owned().bit_and(pb.view().to_owned()),
                    codes: and.clone(),
                    symbolic: symbolic(&and),
                });
            }
        }
        v.push(Produced { name: "bit_or(fresh, fresh)".into(), seq: build(content).bit_or(build(other)), codes: or.clone(), symbolic: symbolic(&or) });
        v.push(Produced { name: "bit_and(fresh, fresh)".into(), seq: build(content).bit_and(build(other)), codes: and.clone(), symbolic: symbolic(&and) });
    }
    if edits {
        // edited values: short histories of the C06 alphabet ending in `content`-derived contents
        let x = al[0];
        let y = al[al.len() - 1];
        let donor = place(other, 1, 2);
        // 1. truncate (dead bits stay behind)
        if n >= 1 {
            let mut s = build(content);
            s.push(y);
            s.push(x);
            s.truncate(n);
            v.push(p("push,push,truncate", s, content));
        }
        // 2. remove from the front / middle / back
        {
            let mut m: Vec<A> = vec![y, x];
            m.extend_from_slice(content);
            let mut s = build(&m);
            s.remove(0..2);
            v.push(p("remove(0..2) of 2+content", s, content));
            let mut s = owned_from_offset(&m, 3);
            s.remove(..2);
            v.push(p("remove(..2) of offset-copied 2+content", s, content));
            if n >= 2 {
                let mut m = content.to_vec();
                m.insert(n / 2, y);
                let mut s = build(&m);
                s.remove(n / 2..=n / 2);
                v.push(p("remove(mid) of content with an inserted symbol", s, content));
            }
        }
        // 3. clear then rebuild (keeps allocation and head)
        {
            let mut s = owned_from_offset(other, 5 % noff(A::BITS as usize).max(1));
            s.clear();
            s.extend(content.iter().copied());
            v.push(p("clear(offset-copied) + extend", s, content));
            let mut s = build(other);
            s.clear();
            s.append(place(content, 2, 0).view());
            v.push(p("clear + append(slice@2)", s, content));
        }
        // 4. prepend / insert / append of offset windows
        {
            let k = n / 2;
            let mut s = build(&content[k..]);
            s.prepend(place(&content[..k], 1, 0).view());
            v.push(p("prepend(slice@1)", s, content));
            let mut s = owned_from_offset(&content[..k], 2);
            s.append(place(&content[k..], 3, 0).view());
            v.push(p("append(slice@3) to offset-copied", s, content));
            let k2 = (n * 3) / 4;
            let mut outer: Vec<A> = content[..k].to_vec();
            outer.extend_from_slice(&content[k2..]);
            let mut s = build(&outer);
            s.insert(k, place(&content[k..k2], 1, 0).view());
            v.push(p("insert(mid, slice@1)", s, content));
            let mut s = owned_from_offset(&outer, 1);
            s.insert(k, place(&content[k..k2], 2, 0).view());
            v.push(p("insert(mid, slice@2) into offset-copied", s, content));
            let _ = &donor;
        }
        // 5. empty values with a history
        if n == 0 {
            let mut s = owned_from_offset(other, 1);
            s.clear();
            v.push(p("clear(offset-copied)", s, content));
            let mut s = build(&[x, y, x]);
            s.truncate(0);
            v.push(p("truncate(0)", s, content));
            let mut s = build(&[x, y]);
            s.remove(..);
            v.push(p("remove(..)", s, content));
            v.push(p("new()", Seq::new(), content));
            v.push(p("default()", Seq::default(), content));
            v.push(p("with_capacity(100)", Seq::with_capacity(100), content));
        }
    }
    v
}

/// `Seq::from(kmer)` for a usize-backed k-mer holding `content`.
pub fn from_kmer<A: Sx, const K: usize>(content: &[A], s: usize) -> Option<Produced<A>> {
    let pl = place(content, s, 0);
    let k = Kmer::<A, K>::try_from(pl.view()).ok()?;
    Some(p(format!("Seq::from(Kmer<_,{K}> of slice@{s})"), Seq::from(k), content))
}
