//! Iterator protocol exploration: every sequence of {next, nth(k)} calls up to a
//! depth, followed by every terminal consumer (drain, count, last, size_hint,
//! fold, skip, step_by), executed on a fresh real iterator and on a reference
//! iterator over the model list.  Catches overrides of `nth`, `size_hint`,
//! `count`, `last`, `fold` that disagree with `next`.

use crate::run::{catch, Out};
use std::fmt::Debug;

#[derive(Clone, Copy, Debug, PartialEq)]
pub enum IOp {
    Next,
    Nth(usize),
}

const TERMINALS: [&str; 14] = [
    "drain", "count", "last", "size_hint", "fold", "skip(1)", "step_by(2)", "nth(1) after skip(2)",
    "for_each", "collect::<Vec>", "find(none) then next", "position(second)", "all(true)/any(false)", "by_ref().take(1) then drain",
];

/// `mk` builds a fresh real iterator; `proj` turns its items into comparable values;
/// `model` is the list of values the iterator must yield.  Returns the number of
/// protocol traces executed.  Violations are reported through `out` with the
/// signature prefix `sig`.
pub fn explore<I, X, T>(
    sig: &str,
    what: &str,
    mk: &dyn Fn() -> I,
    proj: &dyn Fn(X) -> T,
    model: &[T],
    depth: usize,
    out: &mut Out,
) -> u64
where
    I: Iterator<Item = X>,
    T: PartialEq + Debug + Clone,
{
    let n = model.len();
    let cap = n + 4;
    // (nth(usize::MAX) and nth(usize::MAX - 1) after any prefix: an index computed as position + n must not wrap)
    let alphabet = [IOp::Next, IOp::Nth(0), IOp::Nth(1), IOp::Nth(2), IOp::Nth(n + 1), IOp::Nth(usize::MAX), IOp::Nth(usize::MAX - 1)];
    let mut traces = 0u64;
    // all op sequences of length 0..=depth, simplest first
    let mut seqs: Vec<Vec<IOp>> = vec![vec![]];
    let mut frontier: Vec<Vec<IOp>> = vec![vec![]];
    for _ in 0..depth {
        let mut next = Vec::new();
        for s in &frontier {
            for op in alphabet {
                let mut t = s.clone();
                t.push(op);
                next.push(t);
            }
        }
        seqs.extend(next.iter().cloned());
        frontier = next;
    }
    let mut reported = 0;
    for ops in &seqs {
        // the capped drain runs first; if the iterator does not terminate after this prefix, the consumers
        // that cannot be capped (count, last, collect, for_each, find, all) are not run on it
        let mut drain_terminates = true;
        for (ti, term) in TERMINALS.iter().enumerate() {
            if !drain_terminates && matches!(ti, 1 | 2 | 4 | 8 | 9 | 10 | 12) {
                continue;
            }
            traces += 1;
            out.checks += 1;
            out.tick();
            // reference run on the model list
            let mut pos = 0usize;
            let mut want_items: Vec<Option<T>> = Vec::new();
            for op in ops {
                let k = match op {
                    IOp::Next => 0,
                    IOp::Nth(k) => *k,
                };
                pos = pos.saturating_add(k);
                if pos < n {
                    want_items.push(Some(model[pos].clone()));
                    pos += 1;
                } else {
                    pos = n;
                    want_items.push(None);
                }
            }
            let rest: &[T] = &model[pos.min(n)..];
            // a `None` from the real iterator ends the comparable part of the trace (the property
            // says nothing about unfused behaviour beyond "terminates"), except that draining after
            // it must still terminate
            let got = catch(|| {
                let mut it = mk();
                let mut items: Vec<Option<T>> = Vec::new();
                for op in ops {
                    let x = match op {
                        IOp::Next => it.next(),
                        IOp::Nth(k) => it.nth(*k),
                    };
                    items.push(x.map(proj));
                }
                let tail: Result<Vec<T>, String> = match ti {
                    0 => {
                        let mut v = Vec::new();
                        while let Some(x) = it.next() {
                            v.push(proj(x));
                            if v.len() > cap {
                                return (items, Err("does not terminate (drain exceeded the cap)".to_string()));
                            }
                        }
                        Ok(v)
                    }
                    1 => {
                        let c = it.count();
                        if c == rest.len() {
                            Ok(rest.to_vec())
                        } else {
                            Err(format!("count() = {c}, want {}", rest.len()))
                        }
                    }
                    2 => {
                        let l = it.last().map(proj);
                        if l.as_ref() == rest.last() {
                            Ok(rest.to_vec())
                        } else {
                            Err(format!("last() = {:?}, want {:?}", l, rest.last()))
                        }
                    }
                    3 => {
                        let (lo, hi) = it.size_hint();
                        if lo <= rest.len() && hi.map_or(true, |h| h >= rest.len()) {
                            Ok(rest.to_vec())
                        } else {
                            Err(format!("size_hint() = ({lo}, {hi:?}) excludes the true remaining count {}", rest.len()))
                        }
                    }
                    4 => Ok(it.fold(Vec::new(), |mut v, x| {
                        if v.len() <= cap {
                            v.push(proj(x));
                        }
                        v
                    })),
                    5 => Ok(it.skip(1).take(cap).map(proj).collect()),
                    6 => Ok(it.step_by(2).take(cap).map(proj).collect()),
                    7 => Ok(it.skip(2).nth(1).map(proj).into_iter().collect()),
                    8 => {
                        let mut v = Vec::new();
                        it.for_each(|x| {
                            if v.len() <= cap {
                                v.push(proj(x));
                            }
                        });
                        Ok(v)
                    }
                    9 => {
                        let all: Vec<X> = it.collect();
                        Ok(all.into_iter().take(cap + 1).map(proj).collect())
                    }
                    10 => {
                        // a search that matches nothing consumes everything
                        let mut seen = 0usize;
                        let f = it.find(|_| {
                            seen += 1;
                            false
                        });
                        if f.is_none() && seen == rest.len() && it.next().is_none() {
                            Ok(rest.to_vec())
                        } else {
                            Err(format!("find(|_| false) visited {seen} items (want {}), returned {}", rest.len(), if f.is_some() { "Some" } else { "None" }))
                        }
                    }
                    11 => {
                        let mut k = 0usize;
                        let p = it.position(|_| {
                            k += 1;
                            k == 2
                        });
                        let want_p = if rest.len() >= 2 { Some(1) } else { None };
                        if p == want_p {
                            // what is left after the match
                            Ok(rest.iter().take(if rest.len() >= 2 { 2 } else { rest.len() }).cloned().chain(it.take(cap).map(proj)).collect())
                        } else {
                            Err(format!("position(second item) = {p:?}, want {want_p:?}"))
                        }
                    }
                    12 => {
                        let mut n1 = 0usize;
                        let a = it.all(|_| {
                            n1 += 1;
                            true
                        });
                        if a && n1 == rest.len() {
                            Ok(rest.to_vec())
                        } else {
                            Err(format!("all(|_| true) = {a} after {n1} items (want {})", rest.len()))
                        }
                    }
                    _ => {
                        let first: Vec<T> = it.by_ref().take(1).map(proj).collect();
                        let mut v = first;
                        while let Some(x) = it.next() {
                            v.push(proj(x));
                            if v.len() > cap {
                                break;
                            }
                        }
                        Ok(v)
                    }
                };
                (items, tail)
            });
            let want_tail: Vec<T> = match ti {
                5 => rest.iter().skip(1).cloned().collect(),
                6 => rest.iter().step_by(2).cloned().collect(),
                7 => rest.iter().skip(2).nth(1).cloned().into_iter().collect(),
                _ => rest.to_vec(),
            };
            let ended_early = want_items.iter().any(|x| x.is_none());
            let ok = match &got {
                Ok((items, tail)) => {
                    // compare the items up to and including the first expected None
                    let upto = want_items.iter().position(|x| x.is_none()).map_or(want_items.len(), |p| p + 1);
                    items[..upto] == want_items[..upto] && (ended_early || tail.as_ref() == Ok(&want_tail)) && !(ended_early && matches!(tail, Err(e) if e.starts_with("does not terminate")))
                }
                Err(_) => false,
            };
            if ti == 0 && matches!(&got, Ok((_, Err(e))) if e.starts_with("does not terminate")) {
                drain_terminates = false;
            }
            if ti == 0 && got.is_err() {
                drain_terminates = false;
            }
            if !ok {
                reported += 1;
                if reported <= 3 {
                    out.violation(
                        format!("{sig}/protocol-{}", if got.is_err() { "panics" } else { "disagrees-with-next" }),
                        format!(
                            "{what}: after {:?} then {term}: got {:?}, want items {:?} then {:?}",
                            ops,
                            got.as_ref().map(|(i, t)| (i, t)),
                            want_items,
                            want_tail
                        ),
                    );
                }
            }
        }
    }
    traces
}
