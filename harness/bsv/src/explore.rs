//! E1 — explicit-state explorer.  Breadth-first search over a state graph
//! whose transition function executes the real operation on a real value and
//! checks it against the reference model.  Parent pointers give the shortest
//! history to any violation; states are deduplicated on a canonical key (or not
//! at all, for the stateless cross-check).

use crate::run::Out;
use std::collections::{HashSet, VecDeque};
use std::fmt::Debug;
use std::hash::Hash;

pub trait System {
    type State;
    type Key: Hash + Eq;
    type Op: Clone + Debug;

    fn key(&self, s: &Self::State) -> Self::Key;
    /// Enabled operations in `s`, simplest first.
    fn ops(&self, s: &Self::State) -> Vec<Self::Op>;
    /// Execute `op` on the real value in `s`, compare with the model, return the successor.
    /// `Ok(None)`: successor lies beyond the horizon (not explored further).
    /// `Err((signature, detail))`: the implementation disagreed with the model.
    fn step(&self, s: &Self::State, op: &Self::Op, out: &mut Out) -> Result<Option<Self::State>, (String, String)>;
}

#[derive(Default, Debug, Clone)]
pub struct Stats {
    pub states: u64,
    pub transitions: u64,
    pub max_depth: usize,
    pub frontier_emptied: bool,
    pub cap_hit: bool,
    pub beyond_horizon: u64,
}

struct Node<S, O> {
    state: S,
    parent: usize,
    op: Option<O>,
    depth: usize,
}

fn history<S, O: Clone + Debug>(nodes: &[Node<S, O>], mut i: usize, last: &O) -> String {
    let mut ops = vec![format!("{last:?}")];
    while let Some(op) = &nodes[i].op {
        ops.push(format!("{op:?}"));
        i = nodes[i].parent;
    }
    ops.reverse();
    format!("seed#{i} then [{}]", ops.join(", "))
}

/// BFS from `seeds`.  `max_depth`: depth horizon (usize::MAX = until the
/// frontier is empty).  `dedup`: merge states with equal keys.
pub fn bfs<Y: System>(
    sys: &Y,
    seeds: Vec<Y::State>,
    max_depth: usize,
    max_states: usize,
    dedup: bool,
    out: &mut Out,
) -> Stats {
    let mut st = Stats::default();
    let mut seen: HashSet<Y::Key> = HashSet::new();
    let mut nodes: Vec<Node<Y::State, Y::Op>> = Vec::new();
    let mut queue: VecDeque<usize> = VecDeque::new();
    for s in seeds {
        if dedup && !seen.insert(sys.key(&s)) {
            continue;
        }
        let i = nodes.len();
        nodes.push(Node { state: s, parent: i, op: None, depth: 0 });
        queue.push_back(i);
    }
    let mut violations_here = 0;
    while let Some(i) = queue.pop_front() {
        let depth = nodes[i].depth;
        st.max_depth = st.max_depth.max(depth);
        if depth >= max_depth {
            continue;
        }
        let ops = sys.ops(&nodes[i].state);
        for op in ops {
            st.transitions += 1;
            out.tick();
            match sys.step(&nodes[i].state, &op, out) {
                Err((sig, detail)) => {
                    violations_here += 1;
                    if violations_here <= 20 {
                        let h = history(&nodes, i, &op);
                        out.violation(sig, format!("{detail}; history: {h}"));
                    }
                }
                Ok(None) => st.beyond_horizon += 1,
                Ok(Some(ns)) => {
                    if dedup && !seen.insert(sys.key(&ns)) {
                        continue;
                    }
                    if nodes.len() >= max_states {
                        st.cap_hit = true;
                        continue;
                    }
                    let j = nodes.len();
                    nodes.push(Node { state: ns, parent: i, op: Some(op.clone()), depth: depth + 1 });
                    queue.push_back(j);
                }
            }
        }
    }
    st.states = nodes.len() as u64;
    // write out a couple of explored traces: the deepest state's history and one from the middle
    if out.trace_samples.len() < 4 && nodes.len() > 1 {
        for &i in &[nodes.len() - 1, nodes.len() / 2] {
            let mut ops: Vec<String> = Vec::new();
            let mut j = i;
            while let Some(op) = &nodes[j].op {
                ops.push(format!("{op:?}"));
                j = nodes[j].parent;
            }
            ops.reverse();
            out.trace_samples.push(format!("seed#{j} -> [{}] (depth {})", ops.join(", "), nodes[i].depth));
        }
    }
    // the frontier emptied by itself iff no node at the depth horizon was left unexpanded
    st.frontier_emptied = !st.cap_hit && nodes.iter().all(|n| n.depth < max_depth);
    out.states += st.states;
    out.edges += st.transitions;
    st
}
