//! The seven built-in codecs, a serialisable id for each, and dispatch macros
//! that instantiate a generic function for the codec named by an id.

pub use bio_seq::codec::amino::Amino;
pub use bio_seq::codec::degenerate::Dna as DegDna;
pub use bio_seq::codec::dna::Dna;
pub use bio_seq::codec::iupac::Iupac;
pub use bio_seq::codec::masked::Dna as MDna;
pub use bio_seq::codec::masked::Iupac as MIupac;
pub use bio_seq::codec::text::Dna as TDna;
pub use bio_seq::codec::Codec;
pub use bio_seq::seq::{Seq, SeqArray, SeqSlice};

use serde::{Deserialize, Serialize};

#[derive(Serialize, Deserialize, Clone, Copy, Debug, Hash, PartialEq, Eq, PartialOrd, Ord)]
pub enum Cid {
    Dna,
    Iupac,
    Amino,
    Text,
    MDna,
    MIupac,
    Degen,
    /// harness-defined derived codecs (not part of `ALL`): a 2-bit alphabet whose complement is not a bit
    /// inversion, and a 3-bit alphabet with alternative codes, gaps in the code space and its own complement
    X2,
    X3,
}

/// A user-style 2-bit codec: A=00 T=01 C=10 G=11, complement A<->T, C<->G (so NOT `code ^ 0b11`).
#[derive(Clone, Copy, Debug, PartialEq, Eq, PartialOrd, Ord, Hash, Codec)]
#[bits(2)]
#[repr(u8)]
pub enum Gc2 {
    A = 0b00,
    T = 0b01,
    C = 0b10,
    G = 0b11,
}

impl bio_seq::ComplementMut for Gc2 {
    fn comp(&mut self) {
        *self = match *self {
            Gc2::A => Gc2::T,
            Gc2::T => Gc2::A,
            Gc2::C => Gc2::G,
            Gc2::G => Gc2::C,
        };
    }
}

/// A user-style 3-bit codec with alternative codes (7 -> P, 5 -> R), an unused code (6) and a complement
/// that is neither a bit inversion nor a bit reversal: P<->S, Q<->T, R<->R.
#[derive(Clone, Copy, Debug, PartialEq, Eq, PartialOrd, Ord, Hash, Codec)]
#[bits(3)]
#[repr(u8)]
pub enum Tri3 {
    #[alt(0b111)]
    P = 0b000,
    Q = 0b001,
    #[alt(0b101)]
    R = 0b010,
    #[display('s')]
    S = 0b100,
    T = 0b011,
}

impl bio_seq::ComplementMut for Tri3 {
    fn comp(&mut self) {
        *self = match *self {
            Tri3::P => Tri3::S,
            Tri3::S => Tri3::P,
            Tri3::Q => Tri3::T,
            Tri3::T => Tri3::Q,
            Tri3::R => Tri3::R,
        };
    }
}

impl Cid {
    pub const CUSTOM: [Cid; 2] = [Cid::X2, Cid::X3];
    /// the seven built-in codecs followed by the harness-defined derived ones
    pub const WITH_CUSTOM: [Cid; 9] =
        [Cid::Dna, Cid::Iupac, Cid::Amino, Cid::Text, Cid::MDna, Cid::MIupac, Cid::Degen, Cid::X2, Cid::X3];
    pub const ALL: [Cid; 7] = [
        Cid::Dna,
        Cid::Iupac,
        Cid::Amino,
        Cid::Text,
        Cid::MDna,
        Cid::MIupac,
        Cid::Degen,
    ];
    /// codecs whose symbols implement `ComplementMut`
    pub const COMP: [Cid; 5] = [Cid::Dna, Cid::Iupac, Cid::MDna, Cid::MIupac, Cid::Degen];
    /// codecs whose symbols implement `Ord` (so `Kmer`/`Seq` over them are `Ord`)
    pub const ORD: [Cid; 5] = [Cid::Dna, Cid::Text, Cid::MDna, Cid::MIupac, Cid::Degen];

    pub fn name(self) -> &'static str {
        match self {
            Cid::Dna => "dna::Dna",
            Cid::Iupac => "iupac::Iupac",
            Cid::Amino => "amino::Amino",
            Cid::Text => "text::Dna",
            Cid::MDna => "masked::Dna",
            Cid::MIupac => "masked::Iupac",
            Cid::Degen => "degenerate::Dna",
            Cid::X2 => "custom::Gc2",
            Cid::X3 => "custom::Tri3",
        }
    }
    /// Documented symbol width (hand-typed; C05 checks `Codec::BITS` against it).
    pub fn bits(self) -> usize {
        match self {
            Cid::Dna => 2,
            Cid::Iupac => 4,
            Cid::Amino => 6,
            Cid::Text => 8,
            Cid::MDna => 4,
            Cid::MIupac => 5,
            Cid::Degen => 1,
            Cid::X2 => 2,
            Cid::X3 => 3,
        }
    }
}

#[macro_export]
macro_rules! dispatch {
    ($cid:expr, $f:ident ( $($args:expr),* $(,)? )) => {
        match $cid {
            $crate::Cid::Dna => $f::<$crate::Dna>($($args),*),
            $crate::Cid::Iupac => $f::<$crate::Iupac>($($args),*),
            $crate::Cid::Amino => $f::<$crate::Amino>($($args),*),
            $crate::Cid::Text => $f::<$crate::TDna>($($args),*),
            $crate::Cid::MDna => $f::<$crate::MDna>($($args),*),
            $crate::Cid::MIupac => $f::<$crate::MIupac>($($args),*),
            $crate::Cid::Degen => $f::<$crate::DegDna>($($args),*),
            $crate::Cid::X2 => $f::<$crate::Gc2>($($args),*),
            $crate::Cid::X3 => $f::<$crate::Tri3>($($args),*),
        }
    };
}

/// Dispatch over the complementable codecs only.
#[macro_export]
macro_rules! dispatch_comp {
    ($cid:expr, $f:ident ( $($args:expr),* $(,)? )) => {
        match $cid {
            $crate::Cid::Dna => $f::<$crate::Dna>($($args),*),
            $crate::Cid::Iupac => $f::<$crate::Iupac>($($args),*),
            $crate::Cid::MDna => $f::<$crate::MDna>($($args),*),
            $crate::Cid::MIupac => $f::<$crate::MIupac>($($args),*),
            $crate::Cid::Degen => $f::<$crate::DegDna>($($args),*),
            other => panic!("codec {:?} is not complementable", other),
        }
    };
}

/// Dispatch over the orderable codecs only.
#[macro_export]
macro_rules! dispatch_ord {
    ($cid:expr, $f:ident ( $($args:expr),* $(,)? )) => {
        match $cid {
            $crate::Cid::Dna => $f::<$crate::Dna>($($args),*),
            $crate::Cid::Text => $f::<$crate::TDna>($($args),*),
            $crate::Cid::MDna => $f::<$crate::MDna>($($args),*),
            $crate::Cid::MIupac => $f::<$crate::MIupac>($($args),*),
            $crate::Cid::Degen => $f::<$crate::DegDna>($($args),*),
            other => panic!("codec {:?} is not orderable", other),
        }
    };
}

/// The codec's own symbol list (`items()`), in its own order.
pub fn alphabet<A: Codec>() -> Vec<A> {
    A::items().collect()
}

pub fn bits_of<A: Codec>() -> usize {
    A::BITS as usize
}

/// Number of distinct bit offsets a symbol-aligned slice start can have inside a 64-bit word.
pub fn noff(bits: usize) -> usize {
    fn gcd(a: usize, b: usize) -> usize {
        if b == 0 {
            a
        } else {
            gcd(b, a % b)
        }
    }
    64 / gcd(bits, 64)
}

/// Word-boundary lengths WB(c) of DESIGN.md section 2, for `words` machine words.
pub fn wb_lengths(bits: usize, words: usize) -> Vec<usize> {
    let mut v = vec![0usize, 1, 2, 3];
    for m in 1..=words {
        let b = 64 * m / bits;
        for d in [-1i64, 0, 1] {
            let x = b as i64 + d;
            if x >= 0 {
                v.push(x as usize);
            }
        }
    }
    v.sort();
    v.dedup();
    v
}

/// Lengths well beyond the small-scope bound (4 and 8 machine words +-1, 16 words + 3): one
/// pattern pair per length, to catch code paths that only engage on long inputs (chunked or
/// vectorised fast paths).
pub fn long_lengths(bits: usize) -> Vec<usize> {
    let mut v = Vec::new();
    for m in [4usize, 8] {
        let b = 64 * m / bits;
        v.extend([b - 1, b, b + 1]);
    }
    v.push(64 * 16 / bits + 3);
    v
}

/// Integer constants found in the subject's sources (passed by the driver as `--opt consts=a,b,..`).
pub fn source_constants() -> Vec<usize> {
    crate::run::opt("consts").map(|s| s.split(',').filter_map(|x| x.parse().ok()).collect()).unwrap_or_default()
}

/// Lengths far beyond the small-scope bound, chosen where a block size, fast-path threshold or
/// capacity boundary would sit: 64, 65 and 128 machine words, 4096 and 8192 symbols, and every
/// integer constant of the subject's sources read as a count of symbols, bytes, bits or words
/// (each +-1).  One pattern per length; capped at 70000 symbols.
pub fn huge_lengths(bits: usize) -> Vec<usize> {
    let mut c: Vec<usize> = Vec::new();
    for w in [64usize, 65, 128] {
        let b = 64 * w / bits;
        c.extend([b - 1, b, b + 1]);
    }
    for k in [4096usize, 8192] {
        c.extend([k - 1, k, k + 1]);
    }
    for k in source_constants() {
        for l in [k, k * 8 / bits, k / bits, k * 64 / bits] {
            c.extend([l.saturating_sub(1), l, l + 1]);
        }
    }
    let floor = 64 * 16 / bits + 3;
    c.retain(|&n| n > floor && n <= 70_000);
    c.sort();
    c.dedup();
    c
}

pub fn show<A: Codec>(v: &[A]) -> String {
    v.iter().map(|a| a.to_char()).collect()
}

// ---------------------------------------------------------------------------
// `Sx`: one harness-side trait over all seven codecs, exposing the optional
// capabilities (complement, masking, ordering) as `Option`s so that a single
// generic check body can serve every codec.
// ---------------------------------------------------------------------------

use bio_seq::{
    Complement, ComplementMut, Maskable, MaskableMut, Reverse, ReverseComplement, ReverseComplementMut, ReverseMut,
};
use std::cmp::Ordering;

/// Everything `Ord`/`PartialOrd` says about a pair.
#[derive(Debug, Clone, Copy, PartialEq, Eq, Hash)]
pub struct CmpObs {
    pub cmp: Ordering,
    pub partial: Option<Ordering>,
    pub lt: bool,
    pub le: bool,
    pub gt: bool,
    pub ge: bool,
    /// Ord::max(a, b) == b, Ord::min(a, b) == a (by ==), a.clamp(min(a,b), max(a,b)) == a
    pub max_is_b: bool,
    pub min_is_a: bool,
    pub clamp_ok: bool,
}

pub fn cmp_obs<T: Ord + Clone>(a: &T, b: &T) -> CmpObs {
    let mx = Ord::max(a.clone(), b.clone());
    let mn = Ord::min(a.clone(), b.clone());
    let cl = a.clone().clamp(mn.clone(), mx.clone());
    CmpObs { cmp: a.cmp(b), partial: a.partial_cmp(b), lt: a < b, le: a <= b, gt: a > b, ge: a >= b, max_is_b: mx == *b, min_is_a: mn == *a, clamp_ok: cl == *a }
}

pub trait Sx: Codec + Send + Sync + 'static {
    const CID: Cid;
    const HAS_COMP: bool = false;
    const HAS_MASK: bool = false;
    const HAS_ORD: bool = false;

    /// symbol-level complement (the codec's own `ComplementMut`)
    fn comp1(self) -> Option<Self> {
        None
    }
    fn mask1(self) -> Option<Self> {
        None
    }
    fn unmask1(self) -> Option<Self> {
        None
    }
    fn cmp1(self, _o: Self) -> Option<Ordering> {
        None
    }
    fn slice_to_comp(_s: &SeqSlice<Self>) -> Option<Seq<Self>> {
        None
    }
    fn slice_to_revcomp(_s: &SeqSlice<Self>) -> Option<Seq<Self>> {
        None
    }
    fn seq_to_comp(_s: &Seq<Self>) -> Option<Seq<Self>> {
        None
    }
    fn seq_to_revcomp(_s: &Seq<Self>) -> Option<Seq<Self>> {
        None
    }
    fn seq_comp(_s: &mut Seq<Self>) -> bool {
        false
    }
    fn seq_revcomp(_s: &mut Seq<Self>) -> bool {
        false
    }
    fn seq_mask(_s: &mut Seq<Self>) -> bool {
        false
    }
    fn seq_unmask(_s: &mut Seq<Self>) -> bool {
        false
    }
    fn seq_to_mask(_s: &Seq<Self>) -> Option<Seq<Self>> {
        None
    }
    fn seq_to_unmask(_s: &Seq<Self>) -> Option<Seq<Self>> {
        None
    }
    fn seq_cmp(_a: &Seq<Self>, _b: &Seq<Self>) -> Option<Ordering> {
        None
    }
    fn seq_cmp_obs(_a: &Seq<Self>, _b: &Seq<Self>) -> Option<CmpObs> {
        None
    }
    /// symbol-level `Display` (only amino::Amino has one)
    fn display1(self) -> Option<String> {
        None
    }
    /// `u8::from(symbol)` where the codec offers it
    fn into_u8(self) -> Option<u8> {
        None
    }
}

macro_rules! sx_comp {
    () => {
        const HAS_COMP: bool = true;
        fn comp1(self) -> Option<Self> {
            let mut x = self;
            ComplementMut::comp(&mut x);
            Some(x)
        }
        fn slice_to_comp(s: &SeqSlice<Self>) -> Option<Seq<Self>> {
            Some(Complement::to_comp(s))
        }
        fn slice_to_revcomp(s: &SeqSlice<Self>) -> Option<Seq<Self>> {
            Some(ReverseComplement::to_revcomp(s))
        }
        fn seq_to_comp(s: &Seq<Self>) -> Option<Seq<Self>> {
            Some(Complement::to_comp(s))
        }
        fn seq_to_revcomp(s: &Seq<Self>) -> Option<Seq<Self>> {
            Some(ReverseComplement::to_revcomp(s))
        }
        fn seq_comp(s: &mut Seq<Self>) -> bool {
            ComplementMut::comp(s);
            true
        }
        fn seq_revcomp(s: &mut Seq<Self>) -> bool {
            ReverseComplementMut::revcomp(s);
            true
        }
    };
}

macro_rules! sx_mask {
    () => {
        const HAS_MASK: bool = true;
        fn mask1(self) -> Option<Self> {
            let mut x = self;
            MaskableMut::mask(&mut x);
            Some(x)
        }
        fn unmask1(self) -> Option<Self> {
            let mut x = self;
            MaskableMut::unmask(&mut x);
            Some(x)
        }
        fn seq_mask(s: &mut Seq<Self>) -> bool {
            MaskableMut::mask(s);
            true
        }
        fn seq_unmask(s: &mut Seq<Self>) -> bool {
            MaskableMut::unmask(s);
            true
        }
        fn seq_to_mask(s: &Seq<Self>) -> Option<Seq<Self>> {
            Some(Maskable::to_mask(s))
        }
        fn seq_to_unmask(s: &Seq<Self>) -> Option<Seq<Self>> {
            Some(Maskable::to_unmask(s))
        }
    };
}

macro_rules! sx_ord {
    () => {
        const HAS_ORD: bool = true;
        fn cmp1(self, o: Self) -> Option<Ordering> {
            Some(Ord::cmp(&self, &o))
        }
        fn seq_cmp(a: &Seq<Self>, b: &Seq<Self>) -> Option<Ordering> {
            Some(Ord::cmp(a, b))
        }
        fn seq_cmp_obs(a: &Seq<Self>, b: &Seq<Self>) -> Option<CmpObs> {
            Some(cmp_obs(a, b))
        }
    };
}

impl Sx for Dna {
    const CID: Cid = Cid::Dna;
    sx_comp!();
    sx_ord!();
}
impl Sx for Iupac {
    const CID: Cid = Cid::Iupac;
    fn into_u8(self) -> Option<u8> {
        Some(u8::from(self))
    }
    sx_comp!();
}
impl Sx for Amino {
    const CID: Cid = Cid::Amino;
    fn display1(self) -> Option<String> {
        Some(format!("{self}"))
    }
    fn into_u8(self) -> Option<u8> {
        Some(u8::from(self))
    }
}
impl Sx for TDna {
    const CID: Cid = Cid::Text;
    fn into_u8(self) -> Option<u8> {
        Some(u8::from(self))
    }
    sx_ord!();
}
impl Sx for MDna {
    const CID: Cid = Cid::MDna;
    sx_comp!();
    sx_mask!();
    sx_ord!();
}
impl Sx for MIupac {
    const CID: Cid = Cid::MIupac;
    sx_comp!();
    sx_mask!();
    sx_ord!();
}
impl Sx for Gc2 {
    const CID: Cid = Cid::X2;
    sx_comp!();
    sx_ord!();
}
impl Sx for Tri3 {
    const CID: Cid = Cid::X3;
    sx_comp!();
    sx_ord!();
}
impl Sx for DegDna {
    const CID: Cid = Cid::Degen;
    sx_comp!();
    sx_ord!();
}

/// copying reverse of a slice / in-place reverse of an owned sequence (all codecs)
pub fn slice_to_rev<A: Codec>(s: &SeqSlice<A>) -> Seq<A> {
    Reverse::to_rev(s)
}
pub fn seq_to_rev<A: Codec>(s: &Seq<A>) -> Seq<A> {
    Reverse::to_rev(s)
}
pub fn seq_rev<A: Codec>(s: &mut Seq<A>) {
    ReverseMut::rev(s)
}
