//! A `Hasher` that records what it is fed.
//!
//! `bytes` is the flattened byte stream (what any byte-oriented hasher such as
//! std's SipHash sees); `calls` additionally tags each `write_*` call with its
//! kind.  Checks decide on `bytes`; a difference only in `calls` is reported as
//! a non-deciding counter.

use std::hash::{Hash, Hasher};

#[derive(Default, Clone, PartialEq, Eq, Hash, Debug)]
pub struct Recorder {
    pub bytes: Vec<u8>,
    pub calls: Vec<u8>,
}

impl Recorder {
    fn rec(&mut self, tag: u8, b: &[u8]) {
        self.calls.push(tag);
        self.calls.push(b.len() as u8);
        self.bytes.extend_from_slice(b);
    }
}

impl Hasher for Recorder {
    fn finish(&self) -> u64 {
        0
    }
    fn write(&mut self, bytes: &[u8]) {
        self.calls.push(0);
        self.calls.extend_from_slice(&(bytes.len() as u32).to_le_bytes());
        self.bytes.extend_from_slice(bytes);
    }
    fn write_u8(&mut self, i: u8) {
        self.rec(1, &[i]);
    }
    fn write_u16(&mut self, i: u16) {
        self.rec(2, &i.to_ne_bytes());
    }
    fn write_u32(&mut self, i: u32) {
        self.rec(3, &i.to_ne_bytes());
    }
    fn write_u64(&mut self, i: u64) {
        self.rec(4, &i.to_ne_bytes());
    }
    fn write_u128(&mut self, i: u128) {
        self.rec(5, &i.to_ne_bytes());
    }
    fn write_usize(&mut self, i: usize) {
        self.rec(6, &i.to_ne_bytes());
    }
    fn write_i8(&mut self, i: i8) {
        self.rec(7, &i.to_ne_bytes());
    }
    fn write_i16(&mut self, i: i16) {
        self.rec(8, &i.to_ne_bytes());
    }
    fn write_i32(&mut self, i: i32) {
        self.rec(9, &i.to_ne_bytes());
    }
    fn write_i64(&mut self, i: i64) {
        self.rec(10, &i.to_ne_bytes());
    }
    fn write_i128(&mut self, i: i128) {
        self.rec(11, &i.to_ne_bytes());
    }
    fn write_isize(&mut self, i: isize) {
        self.rec(12, &i.to_ne_bytes());
    }
}

/// The byte stream a value feeds to a hasher.
pub fn stream<T: Hash + ?Sized>(t: &T) -> Recorder {
    let mut r = Recorder::default();
    t.hash(&mut r);
    r
}

/// std's default (SipHash, fixed keys) digest, for HashMap-style lookups.
pub fn sip<T: Hash + ?Sized>(t: &T) -> u64 {
    let mut h = std::collections::hash_map::DefaultHasher::new();
    t.hash(&mut h);
    h.finish()
}
