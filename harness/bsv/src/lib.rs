//! bsv — bounded-exhaustive verification harness for jeff-k/bio-seq.
//!
//! Every check is a *case enumerator* plus a *case executor*: the enumerator
//! produces every case inside the stated bound (deterministically, simplest
//! first), the executor runs the real bio-seq code on the case and compares
//! each observation with a reference model (lists of symbols, integers,
//! hand-typed tables).  See /verif/DESIGN.md.

pub mod codecs;
pub mod explore;
pub mod fixture;
pub mod iterproto;
pub mod model;
pub mod producers;
pub mod rec;
pub mod run;
pub mod spec;

pub use codecs::*;
pub use run::{main_loop, Out, Tier};
