#!/bin/sh
# setup_cmd: offline build of every check binary in both profiles (warms the cargo cache only;
# each check rebuilds what changed in /repo by itself).
set -e
cd "$(dirname "$0")"
export CARGO_NET_OFFLINE=true
mkdir -p work evidence replays
exec ./check build
